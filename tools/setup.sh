#!/bin/sh
# one-off build after a fresh restore: full .vo build of the Coq development (includes extraction) + OCaml driver
cd "$(dirname "$0")/.." || exit 2
mkdir -p build/ocaml coq/Gen coq/Cases evidence replays
PYTHONPATH=/repo /venv/bin/python tools/py2coq.py || echo "translator reported a problem (checks will report it)"
sh tools/mkproject.sh
(cd coq && timeout 3000 make -j16 2>&1 | tail -5)
cp tools/ocaml/driver.ml build/ocaml/driver.ml
(cd build/ocaml && ocamlfind ocamlopt -w -a model.mli model.ml driver.ml -o driver) || exit 1
echo setup done
