#!/usr/bin/env python3
"""py2coq - fail-closed translator from the scalar formula code of scikit-gstat to Coq definitions over R.

Reads the CURRENT source under $SKGSTAT_REPO (default /repo) with Python's ast, translates a fixed list of
functions (models.py, stmodels.py, the direction folding of DirectionalVariogram, the kriging variance
line, estimator one-liners) into coq/Gen/*.v.  Anything outside the supported node inventory makes the
translator exit non-zero (the obligation `translate:<function>` is then broken; nothing is skipped).

Also usable as a module: `translate_all()` returns {name: IR}; `ir_eval` evaluates the IR in Python
(front-end validation against the original function)."""
import ast, os, sys, math, json
from fractions import Fraction

REPO = os.environ.get('SKGSTAT_REPO', '/repo')
OUT = os.path.join(os.path.dirname(os.path.abspath(__file__)), '..', 'coq', 'Gen')


class Unsupported(Exception):
    pass


# ----------------------------------------------------------------------------- IR
# ('num', Fraction) ('var', name) ('bin', op, a, b) ('neg', a) ('pow_nat', a, n) ('rpower', a, b)
# ('call1', fname, a) ('call2', fname, a, b) ('app', fvar, a) ('if', cond, a, b) ('let', name, a, body)
# cond: ('cmp', op, a, b)

FUN1 = {('math', 'exp'): 'exp', ('np', 'sqrt'): 'sqrt', ('np', 'abs'): 'Rabs', ('math', 'sqrt'): 'sqrt',
        ('np', 'radians'): 'radians', ('np', 'arccos'): 'acos', ('np', 'sin'): 'sin', ('np', 'cos'): 'cos',
        ('special', 'gamma'): 'Gamma'}
FUN2 = {('special', 'kv'): 'Kv'}
POW2 = {('math', 'pow'), ('np', 'power')}


def num_of(node):
    if isinstance(node, ast.Constant) and isinstance(node.value, (int, float)) and not isinstance(node.value, bool):
        v = node.value
        if isinstance(v, float):
            # decimal text as written -> exact decimal rational (1.5 -> 3/2, 0.457 -> 457/1000)
            return Fraction(repr(v))
        return Fraction(v)
    return None


def expr(node, funcparams=()):
    n = num_of(node)
    if n is not None:
        return ('num', n)
    if isinstance(node, ast.Name):
        return ('var', node.id)
    if isinstance(node, ast.Attribute) and isinstance(node.value, ast.Name):
        if (node.value.id, node.attr) == ('np', 'pi') or (node.value.id, node.attr) == ('math', 'pi'):
            return ('var', 'PI')
        if node.value.id == 'self':
            return ('var', node.attr.lstrip('_'))
        raise Unsupported('attribute %s.%s' % (node.value.id, node.attr))
    if isinstance(node, ast.UnaryOp) and isinstance(node.op, ast.USub):
        return ('neg', expr(node.operand, funcparams))
    if isinstance(node, ast.BinOp):
        a, b = expr(node.left, funcparams), expr(node.right, funcparams)
        if isinstance(node.op, ast.Add):
            return ('bin', '+', a, b)
        if isinstance(node.op, ast.Sub):
            return ('bin', '-', a, b)
        if isinstance(node.op, ast.Mult):
            return ('bin', '*', a, b)
        if isinstance(node.op, ast.Div):
            return ('bin', '/', a, b)
        if isinstance(node.op, ast.Pow):
            if b[0] == 'num' and b[1].denominator == 1 and 0 <= b[1] <= 64:
                return ('pow_nat', a, int(b[1]))
            return ('rpower', a, b)
        raise Unsupported('binary operator %s' % type(node.op).__name__)
    if isinstance(node, ast.Call):
        f = node.func
        if node.keywords:
            raise Unsupported('keyword arguments in call')
        if isinstance(f, ast.Attribute) and isinstance(f.value, ast.Name):
            key = (f.value.id, f.attr)
            if key == ('np', 'where') and len(node.args) == 3:
                return ('if', cond(node.args[0], funcparams), expr(node.args[1], funcparams), expr(node.args[2], funcparams))
            args = [expr(a, funcparams) for a in node.args]
            if key == ('np', 'radians') and len(args) == 1:
                return ('bin', '/', ('bin', '*', args[0], ('var', 'PI')), ('num', Fraction(180)))
            if key in FUN1 and len(args) == 1:
                return ('call1', FUN1[key], args[0])
            if key in FUN2 and len(args) == 2:
                return ('call2', FUN2[key], args[0], args[1])
            if key in POW2 and len(args) == 2:
                b = args[1]
                if b[0] == 'num' and b[1].denominator == 1 and 0 <= b[1] <= 64:
                    return ('pow_nat', args[0], int(b[1]))
                if b[0] == 'num' and b[1] == Fraction(1, 2):
                    return ('call1', 'sqrt', args[0])
                return ('rpower', args[0], b)
            raise Unsupported('call of %s.%s' % key)
        if isinstance(f, ast.Name) and f.id in funcparams and len(node.args) == 1:
            return ('app', f.id, expr(node.args[0], funcparams))
        raise Unsupported('call of %s' % ast.dump(f))
    raise Unsupported('expression node %s' % type(node).__name__)


CMP = {ast.LtE: '<=', ast.Lt: '<', ast.GtE: '>=', ast.Gt: '>', ast.Eq: '=='}


def cond(node, funcparams=()):
    if isinstance(node, ast.Compare) and len(node.ops) == 1 and type(node.ops[0]) in CMP:
        return ('cmp', CMP[type(node.ops[0])], expr(node.left, funcparams), expr(node.comparators[0], funcparams))
    raise Unsupported('condition %s' % ast.dump(node))


def prop(node, funcparams=()):
    """boolean result expression -> proposition IR"""
    if isinstance(node, ast.BinOp) and isinstance(node.op, ast.BitAnd):
        return ('and', prop(node.left, funcparams), prop(node.right, funcparams))
    if isinstance(node, ast.Name):
        return ('var', node.id)
    c = cond(node, funcparams)
    return ('prop', c[1], c[2], c[3])


def body_prop(stmts, funcparams=()):
    """statement list ending in `return <comparison [& comparison]>` -> proposition IR with lets"""
    if not stmts:
        raise Unsupported('function body falls off without return')
    s, rest = stmts[0], stmts[1:]
    if isinstance(s, ast.Expr) and isinstance(s.value, ast.Constant) and isinstance(s.value.value, str):
        return body_prop(rest, funcparams)
    if isinstance(s, ast.Return) and s.value is not None:
        return prop(s.value, funcparams)
    if isinstance(s, ast.Assign) and len(s.targets) == 1 and isinstance(s.targets[0], ast.Name):
        v = s.value
        if isinstance(v, (ast.Compare, ast.BinOp)) and (isinstance(v, ast.Compare) or isinstance(v.op, ast.BitAnd)):
            return ('letP', s.targets[0].id, prop(v, funcparams), body_prop(rest, funcparams))
        return ('let', s.targets[0].id, expr(v, funcparams), body_prop(rest, funcparams))
    raise Unsupported('statement %s in a boolean function' % type(s).__name__)


def body(stmts, funcparams=()):
    """statement list -> expression IR (lets, early returns, if/else returns)"""
    if not stmts:
        raise Unsupported('function body falls off without return')
    s, rest = stmts[0], stmts[1:]
    if isinstance(s, ast.Expr) and isinstance(s.value, ast.Constant) and isinstance(s.value.value, str):
        return body(rest, funcparams)                       # docstring
    if isinstance(s, ast.Return):
        if s.value is None:
            raise Unsupported('bare return')
        return expr(s.value, funcparams)
    if isinstance(s, ast.Assign) and len(s.targets) == 1:
        t = s.targets[0]
        if isinstance(t, ast.Name):
            return ('let', t.id, expr(s.value, funcparams), body(rest, funcparams))
        if isinstance(t, ast.Tuple) and all(isinstance(e, ast.Name) for e in t.elts) and isinstance(s.value, ast.Name):
            # h, t = lags   ->  components lags_0, lags_1
            b = body(rest, funcparams)
            for k, e in reversed(list(enumerate(t.elts))):
                b = ('let', e.id, ('var', '%s_%d' % (s.value.id, k)), b)
            return b
        raise Unsupported('assignment target')
    if isinstance(s, ast.If):
        c = cond(s.test, funcparams)
        then = body(s.body, funcparams)
        if s.orelse:
            els = body(s.orelse, funcparams)
            if rest:
                raise Unsupported('statements after if/else with returns')
        else:
            els = body(rest, funcparams)
        return ('if', c, then, els)
    raise Unsupported('statement %s' % type(s).__name__)


# ----------------------------------------------------------------------------- printers
def coq_num(fr):
    if fr.denominator == 1:
        return str(fr.numerator) if fr >= 0 else '(%d)' % fr.numerator
    return '(%d / %d)' % (fr.numerator, fr.denominator)


def coq(e):
    k = e[0]
    if k == 'num':
        return coq_num(e[1])
    if k == 'var':
        return e[1]
    if k == 'bin':
        return '(%s %s %s)' % (coq(e[2]), e[1], coq(e[3]))
    if k == 'neg':
        return '(- %s)' % coq(e[1])
    if k == 'pow_nat':
        return '(%s ^ %d)' % (coq(e[1]), e[2])
    if k == 'rpower':
        return '(Rpower %s %s)' % (coq(e[1]), coq(e[2]))
    if k == 'call1':
        return '(%s %s)' % (e[1], coq(e[2]))
    if k == 'call2':
        return '(%s %s %s)' % (e[1], coq(e[2]), coq(e[3]))
    if k == 'app':
        return '(%s %s)' % (e[1], coq(e[2]))
    if k == 'let':
        return '(let %s := %s in\n   %s)' % (e[1], coq(e[2]), coq(e[3]))
    if k == 'if':
        op, a, b = e[1][1], coq(e[1][2]), coq(e[1][3])
        dec = {'<=': 'Rle_dec %s %s', '<': 'Rlt_dec %s %s', '>=': 'Rge_dec %s %s', '>': 'Rgt_dec %s %s', '==': 'Req_EM_T %s %s'}[op] % (a, b)
        return '(if %s then %s else %s)' % (dec, coq(e[2]), coq(e[3]))
    if k == 'prop':
        return '(%s %s %s)' % (coq(e[2]), {'<=': '<=', '<': '<', '>=': '>=', '>': '>', '==': '='}[e[1]], coq(e[3]))
    if k == 'and':
        return '(%s /\\ %s)' % (coq(e[1]), coq(e[2]))
    if k == 'letP':
        return '(let %s := %s in\n   %s)' % (e[1], coq(e[2]), coq(e[3]))
    raise Unsupported('printer ' + k)


def ir_eval(e, env):
    """evaluate the IR with Python floats (front-end validation)"""
    k = e[0]
    if k == 'num':
        return float(e[1])
    if k == 'var':
        return env[e[1]]
    if k == 'bin':
        a, b = ir_eval(e[2], env), ir_eval(e[3], env)
        return {'+': a + b, '-': a - b, '*': a * b, '/': (a / b if b != 0 else float('nan'))}[e[1]]
    if k == 'neg':
        return -ir_eval(e[1], env)
    if k == 'pow_nat':
        return ir_eval(e[1], env) ** e[2]
    if k == 'rpower':
        return math.pow(ir_eval(e[1], env), ir_eval(e[2], env))
    if k == 'call1':
        a = ir_eval(e[2], env)
        f = {'exp': math.exp, 'sqrt': math.sqrt, 'Rabs': abs, 'radians': math.radians, 'acos': math.acos, 'sin': math.sin, 'cos': math.cos,
             'Gamma': env.get('Gamma')}[e[1]]
        return f(a)
    if k == 'call2':
        return env[e[1]](ir_eval(e[2], env), ir_eval(e[3], env))
    if k == 'app':
        return env[e[1]](ir_eval(e[2], env))
    if k == 'let':
        return ir_eval(e[3], dict(env, **{e[1]: ir_eval(e[2], env)}))
    if k == 'if':
        op, a, b = e[1][1], ir_eval(e[1][2], env), ir_eval(e[1][3], env)
        c = {'<=': a <= b, '<': a < b, '>=': a >= b, '>': a > b, '==': a == b}[op]
        return ir_eval(e[2] if c else e[3], env)
    if k == 'prop':
        a, b = ir_eval(e[2], env), ir_eval(e[3], env)
        return {'<=': a <= b, '<': a < b, '>=': a >= b, '>': a > b, '==': a == b}[e[1]]
    if k == 'and':
        return bool(ir_eval(e[1], env)) and bool(ir_eval(e[2], env))
    if k == 'letP':
        return ir_eval(e[3], dict(env, **{e[1]: ir_eval(e[2], env)}))
    raise Unsupported(k)


# ----------------------------------------------------------------------------- targets
def find_function(tree, name, cls=None):
    nodes = tree.body
    if cls:
        for n in nodes:
            if isinstance(n, ast.ClassDef) and n.name == cls:
                nodes = n.body
                break
        else:
            raise Unsupported('class %s not found' % cls)
    found = [n for n in nodes if isinstance(n, ast.FunctionDef) and n.name == name]
    if len(found) != 1:
        raise Unsupported('function %s: %d definitions' % (name, len(found)))
    return found[0]


def params_of(fn, expected):
    names = [a.arg for a in fn.args.args]
    if names != expected:
        raise Unsupported('signature of %s changed: %s (expected %s)' % (fn.name, names, expected))
    if fn.args.vararg or fn.args.kwarg or fn.args.kwonlyargs:
        raise Unsupported('signature of %s: varargs' % fn.name)
    defaults = [num_of(d) for d in fn.args.defaults]
    if any(d is None for d in defaults):
        raise Unsupported('default value of %s' % fn.name)
    return names, defaults


MODELS = {
    'spherical': ['h', 'r', 'c0', 'b'], 'exponential': ['h', 'r', 'c0', 'b'], 'gaussian': ['h', 'r', 'c0', 'b'],
    'cubic': ['h', 'r', 'c0', 'b'], 'stable': ['h', 'r', 'c0', 's', 'b'], 'matern': ['h', 'r', 'c0', 's', 'b'],
}
STMODELS = {'sum': ['lags', 'Vx', 'Vt'], 'product': ['lags', 'Vx', 'Vt', 'Cx', 'Ct'],
            'product_sum': ['lags', 'Vx', 'Vt', 'k1', 'k2', 'k3', 'Cx', 'Ct']}


def decorators(fn):
    out = []
    for d in fn.decorator_list:
        if isinstance(d, ast.Name):
            out.append(d.id)
        elif isinstance(d, ast.Call) and isinstance(d.func, ast.Name):
            out.append(d.func.id)
        else:
            raise Unsupported('decorator of %s' % fn.name)
    return out


def translate_all():
    res = {}
    mt = ast.parse(open(os.path.join(REPO, 'skgstat', 'models.py')).read())
    for name, sig in MODELS.items():
        fn = find_function(mt, name)
        names, defaults = params_of(fn, sig)
        if decorators(fn) != ['variogram', 'jit']:
            raise Unsupported('decorators of %s changed: %s' % (name, decorators(fn)))
        if defaults != [Fraction(0)]:
            raise Unsupported('default nugget of %s is not 0.0' % name)
        res['models.' + name] = {'params': names, 'ir': body(fn.body), 'defaults': {'b': 0}}
    stt = ast.parse(open(os.path.join(REPO, 'skgstat', 'stmodels.py')).read())
    for name, sig in STMODELS.items():
        fn = find_function(stt, name)
        names, _ = params_of(fn, sig)
        if decorators(fn) != ['stvariogram']:
            raise Unsupported('decorators of %s changed' % name)
        res['stmodels.' + name] = {'params': ['lags_0', 'lags_1'] + names[1:], 'ir': body(fn.body, funcparams=('Vx', 'Vt')), 'funcparams': ['Vx', 'Vt']}
    dt = ast.parse(open(os.path.join(REPO, 'skgstat', 'DirectionalVariogram.py')).read())
    for name in ('_compass', '_triangle'):
        fn = find_function(dt, name, cls='DirectionalVariogram')
        params_of(fn, ['self', 'angles', 'dists'])
        res['directional.' + name.lstrip('_')] = {'params': ['angles', 'dists'], 'ir': body_prop(fn.body)}
    # named-statement extraction from _calc_direction_mask_data: the two assignments that define the pair angle
    fn = find_function(dt, '_calc_direction_mask_data', cls='DirectionalVariogram')
    pos = [st for st in ast.walk(fn) if isinstance(st, ast.Assign) and len(st.targets) == 1 and isinstance(st.targets[0], ast.Name) and st.targets[0].id == 'pos_angles']
    ang = [st for st in ast.walk(fn) if isinstance(st, ast.Assign) and len(st.targets) == 1 and isinstance(st.targets[0], ast.Attribute)
           and isinstance(st.targets[0].value, ast.Name) and st.targets[0].value.id == 'self' and st.targets[0].attr == '_angles' and not isinstance(st.value, ast.Constant)]
    if len(pos) != 1 or len(ang) != 1:
        raise Unsupported('_calc_direction_mask_data: expected exactly one assignment to pos_angles and to self._angles (found %d, %d)' % (len(pos), len(ang)))
    res['directional.pair_angle'] = {'params': ['scalar', 'ydiff', 'euclidean_dist'], 'ir': ('let', 'pos_angles', expr(pos[0].value), expr(ang[0].value))}
    return res


HEADER = '''(* GENERATED by tools/py2coq.py from %s - do not edit.  Real-number meaning of the Python formulas. *)
From Coq Require Import Reals.
Local Open Scope R_scope.
'''


def emit(res):
    os.makedirs(OUT, exist_ok=True)
    lines = [HEADER % 'skgstat/models.py']
    lines.append('Section Models.\nVariable Gamma : R -> R.\nVariable Kv : R -> R -> R.\n')
    for k, v in res.items():
        if not k.startswith('models.'):
            continue
        name = k.split('.')[1]
        lines.append('Definition %s (%s : R) : R :=\n  %s.\n' % (name, ' '.join(v['params']), coq(v['ir'])))
    lines.append('End Models.\n')
    write_if_changed(os.path.join(OUT, 'Models.v'), '\n'.join(lines))
    lines = [HEADER % 'skgstat/stmodels.py']
    for k, v in res.items():
        if not k.startswith('stmodels.'):
            continue
        name = 'st_' + k.split('.')[1]
        ps = ' '.join('(%s : R -> R)' % p if p in v.get('funcparams', []) else '(%s : R)' % p for p in v['params'])
        lines.append('Definition %s %s : R :=\n  %s.\n' % (name, ps, coq(v['ir'])))
    write_if_changed(os.path.join(OUT, 'STModels.v'), '\n'.join(lines))


def emit_directional(res):
    lines = [HEADER % 'skgstat/DirectionalVariogram.py']
    used = {'compass': ['azimuth', 'tolerance'], 'triangle': ['azimuth', 'tolerance', 'bandwidth']}
    for name in ('compass', 'triangle'):
        v = res['directional.' + name]
        lines.append('Definition %s (%s : R) (angles dists : R) : Prop :=\n  %s.\n' % (name, ' '.join(used[name]), coq(v['ir'])))
    v = res['directional.pair_angle']
    lines.append('Definition pair_angle (scalar ydiff euclidean_dist : R) : R :=\n  %s.\n' % coq(v['ir']))
    write_if_changed(os.path.join(OUT, 'Direction.v'), '\n'.join(lines))


def write_if_changed(path, text):
    if os.path.exists(path) and open(path).read() == text:
        return
    open(path, 'w').write(text)


def main():
    try:
        res = translate_all()
        emit(res)
        emit_directional(res)
    except Unsupported as e:
        print('TRANSLATION-FAILED: %s' % e)
        sys.exit(3)
    except (OSError, SyntaxError) as e:
        print('TRANSLATION-FAILED: cannot read source: %s' % e)
        sys.exit(3)
    print('translated %d functions' % len(res))


if __name__ == '__main__':
    main()
