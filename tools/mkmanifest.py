#!/usr/bin/env python3
"""Regenerates /verif/MANIFEST.json from the table below (one entry per claimed property)."""
import json, os
V = os.path.abspath(os.path.join(os.path.dirname(__file__), '..'))

COMMON_NOTE = ('Trusted: Coq 8.16.1 kernel + vm_compute (no native_compute); axioms as printed by Print Assumptions per run '
               '(Q/list developments closed under the global context; R developments: ClassicalDedekindReals.sig_not_dec, sig_forall_dec, '
               'functional_extensionality_dep, Classical_Prop.classic from the standard library); extraction with ExtrOcamlBasic only + tools/ocaml/driver.ml; '
               'the correspondence harness (generators, tolerances); NumPy/SciPy/scikit-learn leaves modelled, not verified. ')

CLAIMED = {
 'C01': dict(
    text='Theorems (all n, all edge lists, all distances): the condensed enumeration is exactly the pairs i<j in scipy order; the overwrite loop of _calc_groups equals half-open intervals for every non-decreasing edge list; partition/uniqueness; classes, counts and the experimental vector are the estimator over exactly those pairs. Tied to the code on every run by a differential run of the extracted and in-Coq model against Variogram (groups, class contents, counts, alignment of distances and differences, sparse path), plus a brute-force oracle of the property statement.',
    note='Estimator formulas: exact-Q models of Matheron/Dowd/Genton compared with estimators.py; Cressie-Hawkins compared with the documented formula in floating point by the oracle only. Genton order statistic index read as the code has it (binom(N/2+1,2)).',
    technique='Coq proof (induction over lists) + extracted-model correspondence + brute-force oracle', ref='3 C01'),
 'C02': dict(
    text='Theorems for every n, distance list and maxlag: the clipping of maxlag never exceeds the largest distance and honours an absolute value; relative/absolute resolution; even-width edges are n, strictly increasing, equal-width and end exactly at the effective maximum lag; uniform edges are defined, n, non-decreasing and <= the maximum lag (monotonicity and bounds of numpy\'s linear-interpolated quantile proved from a verified insertion sort); mid-point edges of sorted cluster centres and rule-based linspace edges are monotone and bounded. Tied to binning.py / the maxlag setter / bins / n_lags by three differential streams (through Variogram, direct calls on distance multisets, maxlag assigned in place) plus the property statement as oracle.',
    note='Opaque: the bin count chosen by np.histogram_bin_edges and the centres found by KMeans / AgglomerativeClustering (their contract - sorted centres inside the data range - is checked per case). stable_entropy excluded by the property.',
    technique='Coq proof over Q (quantile monotonicity, linspace algebra) + extracted-model correspondence + oracle', ref='3 C02'),
 'C10': dict(
    text='Theorems: a permutation of the points permutes the condensed vector of any symmetric pair function, hence every lag class keeps its multiset (same counts) and the Matheron value; rigid motions and reflections keep squared euclidean distances (for all c,s with c^2+s^2=1); value shift leaves every difference unchanged; value scaling multiplies differences by |k| and the Matheron semivariance by k^2; coordinate scaling by s>0 scales even edges by s and leaves the group of every pair unchanged. Tie: C01 structure correspondence on every base configuration + metamorphic runs of the implementation (9 transformations incl. in-place value exchange).',
    note='PARTIAL: permutation invariance and the k^2 law are proved for Matheron only; for Dowd / Genton / Cressie-Hawkins they are exercised by the metamorphic runs (tested, not proved).',
    technique='Coq proof (induction on Permutation, ring identities) + metamorphic differential runs', ref='3 C10'),
 'C11': dict(
    text='Theorems: the sparse path lists exactly the stored strict-lower-triangle entries (explicit zeros included), distance and difference vectors aligned entry by entry; classes/counts depend only on the multiset of (distance, difference) pairs; pairs at or beyond the last edge never count. Tie: model of triangular_distance_matrix/_format_values_stack run against the implementation; oracle builds every configuration three ways (raw coordinates + absolute maxlag, shared dense MetricSpace, MetricSpace(max_dist)) and compares edges, counts, variogram.',
    note='cKDTree.sparse_distance_matrix ("all pairs within r, true distances") is a trusted leaf, checked per case. Known findings F10b, F17, F18 (see known_findings.json).',
    technique='Coq proof over lists + extracted-model correspondence + three-way differential oracle', ref='3 C11'),
 'C16': dict(
    text='Theorems: the elementwise product of the two condensed difference vectors is, position by position, |dz1|*|dz2| of the same point pair (for all n); commutativity of that product (table symmetry); binning identical to C01 (lag_class is polymorphic in the pairwise quantity). Tie: two-column Variogram configurations against the model and the brute-force oracle; cross_variograms tables (2-4 variables, isotropic and directional): symmetry, diagonal = ordinary variogram; former cross-variogram instances given one-column values.',
    note='As C01.', technique='Coq proof over lists + extracted-model correspondence + table oracle', ref='3 C16'),
 'C07': dict(
    text='Theorems (all sizes, arithmetic over Q): the dense candidates are exactly the columns within range; `closest` returns a subset of the candidates, min(N, #candidates) of them, none farther than a dropped one (stable insertion sort proved a sorted permutation); the assembled rows are the ordinary-kriging equations (sum_j w_j gamma_ij + mu, unit row = sum of weights); squareform index; bookkeeping of transform: i-th variance with i-th estimate, NaN together, counters = number of NaN, for every list of target results. Tie: per target the neighbour list (exact), the recorded matrix and right-hand side of every solver call (exact placement of the implementation\'s own semivariances), the residual of the returned solution, Z and sigma recomputed in Q from the recorded solution, counters; plus a brute-force solution of the OK system on the raw inputs as oracle.',
    note='Linear solvers are trusted leaves (residual-checked per call); the sparse option with unbounded-range models is outside the oracle (C09 limits it to bounded-range models).',
    technique='Coq proof over Q/lists + recorded-solver-call correspondence + brute-force OK oracle', ref='3 C07'),
 'C08': dict(
    text='Theorems valid for ANY solution (w, mu) of the assembled system, all sizes: unit row => weights sum to one; shift invariance; estimate scales with k; scaled semivariances => same weights, mu*c, variance*c; constant field reproduced; the unit vector e_j with mu=0 satisfies every row when the target is observation j (estimate z_j), hence exactness under uniqueness. Tie: C07 correspondence on every set-up + metamorphic runs (exactness incl. duplicated records, shift, scale with sill/nugget k^2, constant field, sign of the variance).',
    note='PARTIAL: non-negativity of the variance (needs conditional negative definiteness of the model, euclidean metric) is tested, not proved; uniqueness of the solution is a hypothesis; ill-conditioned set-ups (cond > 1e7) are skipped by the metamorphic comparisons.',
    technique='Coq proof (linear algebra over Q lists) + metamorphic differential runs', ref='3 C08'),
 'C09': dict(
    text='Theorems: transform of a concatenated batch = concatenation; a permutation of the targets permutes (estimate, variance) pairs together; every call starts from the initial state (repeated calls independent); estimate/variance depend only on the multiset of (weight, value) pairs; sparse and dense feed the same `closest`. Tie: C07 correspondence + each set-up re-run for 3 solvers x sparse/dense (bounded-range models) x arrays/MetricSpace targets, as two batches, permuted and repeated on one instance.',
    note='That each solver returns a solution is a trusted leaf (residual-checked); ill-conditioned set-ups skipped (rounding).',
    technique='Coq proof (fold/permutation lemmas) + option-matrix differential runs', ref='3 C09'),
 'C17': dict(
    text='Theorems: np.delete keeps every other element in place and removes element i (all lists); the held-out observation is not among the remaining ones (NoDup); nan-aware mse/mae are the means over the estimable residuals. Tie: jackknife scores (rmse, mse, mae; all points or seeded subsets incl. seed 0; isolated points that cannot be estimated) against a brute-force leave-one-out solving the OK system with the point deleted; reproducibility of seeded calls.',
    note='numpy default_rng determinism trusted (index choice re-derived with the same seed); kriging itself as C07.',
    technique='Coq proof over lists + brute-force leave-one-out oracle', ref='3 C17'),
 'C20': dict(
    text='Theorems: entry (i,j) of squareform(pdist f) is f(p_i,p_j), symmetric, zero diagonal (all n, via the condensed-index theorem); candidates within range and nearest-N selection as C07. Tie: dense matrices and truncated (sparse) spaces against exact rational distances (stored pairs exactly those with d <= max_dist, incl. max_dist equal to an exactly representable occurring distance), find_closest against the model and against exact nearest-N for every query and N, sparse vs dense, diagonal(idx), probabilistic spaces (true distances of sampled points, reproducible per seed incl. 0).',
    note='cKDTree / pdist / cdist are trusted leaves whose contract this check tests against exact arithmetic.',
    technique='Coq proof over lists + exact-rational differential oracle', ref='3 C20'),
 'C03': dict(
    text='Translator tie: coq/Gen/Models.v is regenerated from models.py by tools/py2coq.py (fail-closed) on every run; bridge lemmas prove the generated definitions equal hand-written closed forms; theorems for ALL real parameters (r>0, c0>=0, admissible s, 0<=h<=h\'): value b at lag 0, monotone, within [b, b+c0], exactly the sill at/after the range (spherical, cubic), >= 95 % at the range (exponential, gaussian, stable via interval arithmetic on 1-exp(-3), 1-exp(-4)), limit b+c0 (Coquelicot is_lim), nugget additivity; cubic monotonicity by the mean value theorem with the factored derivative x(1-x)^3(21/4x^2+63/4x+14). Sum models: for every list of nugget-additive components the model built from consecutive coefficient slices equals the sum of the components plus the single nugget (with and without nugget). Translator validated by an IR round trip and by `interval` goals that evaluate the generated definitions inside Coq against models.py; oracle sweep over 14 decades of range incl. float neighbours of the range, array vs scalar calls (positional and keyword nugget), sums of 2-4 models.',
    note='PARTIAL for Matern: Bessel K and Gamma are parameters (no Bessel functions in the installed libraries); value at 0 and nugget additivity are unconditional, bounds/monotonicity/limit are proved under the stated classical facts about rho_s, the 90 % level at the range is evaluated numerically only. Real-number semantics; rounding covered by the oracle tolerance 1e-9(|b|+c0). Axioms: the four standard-library real-number/classical axioms plus the primitive int/float constants the Interval tactic lists.',
    technique='Python->Coq translator + bridge lemmas + real analysis in Coq (Coquelicot MVT/limits, Interval) + interval-goal evaluation + numeric oracle', ref='3 C03'),
 'C14': dict(
    text='Theorems (all sizes): entry (r,c) of the difference table is |v[a,s]-v[b,t]| for the r-th location pair and c-th time-step pair (condensed order on both axes); the overwrite loop of _calc_group equals open-closed intervals (edge[i-1], edge[i]] for every non-decreasing edge list; entry i*T+j of the table is the estimator over cell (i,j) (space-major); marginals are the column / row of the table. Tie: difference table, groups and every cell against the extracted model (exact), estimator applied by the repository\'s function; oracle recomputes every cell from raw locations and time steps; marginal before any evaluation; maxlag assigned in place.',
    note='Estimator formulas as C01. Degenerate configurations whose edges are NaN (no distance within the maximum lag) are skipped.',
    technique='Coq proof over lists + extracted-model correspondence + brute-force cell oracle', ref='3 C14'),
 'C15': dict(
    text='Translator tie for stmodels.py (sum, product, product-sum proved equal to the documented combinations of arbitrary marginal functions Vx, Vt); theorems: sample i*T+j of the lag grid carries (xbins[i], tbins[j]) - the lags of cell (i,j) of the space-major table - and NaN cells contribute no sample. Tie: the (xdata, ydata) actually passed to curve_fit (recorded by wrapping the module attribute) against the model; fitted model against the documented formula on (N,2) arrays and single lags; re-fit after a lag change.',
    note='PARTIAL: local least-squares optimality is behaviour of scipy.optimize.curve_fit; it is TESTED against a bounded linear least-squares reference (product-sum is linear in k1,k2,k3), not proved.',
    technique='Python->Coq translator + Coq proof over lists + recorded-fit-call correspondence + optimality test', ref='3 C15'),
 'C12': dict(
    text='Translator tie: _compass, _triangle and the pair-angle assignments of _calc_direction_mask_data are regenerated into coq/Gen/Direction.v on every run. Theorems over R for every pair vector u=(dx,dy) of positive length, azimuth in [-180,180], any tolerance and bandwidth: the two np.where steps fold |theta+az| to the angle between undirected lines (0<=fold<=pi/2, cos fold = |cos|); compass <=> acos(|u.a|/|u|) <= tolerance/2 with a = (cos az, -sin az) (0 = East, clockwise positive); triangle <=> that and |u x a| <= bandwidth/2; both decisions are unchanged when the two points are swapped. Grouping part (Q): masked groups = C01 groups with unselected pairs at -1; a pair is in class i iff selected and its distance lies in class i. Tie: translated definitions evaluated per pair against the implementation mask, masked-group model, brute-force geometric oracle, order reversal, edges/estimator from the selected pairs only, in-place setter changes.',
    note='Pairs within 1e-7 degrees / 1e-9 of the tolerance / bandwidth boundary and zero-length pairs are excluded, as the property states. Real-number semantics (standard-library real axioms).',
    technique='Python->Coq translator + real trigonometry in Coq + extracted-model correspondence + geometric oracle', ref='3 C12'),
 'C13': dict(
    text='Theorems over R: tolerance 180 selects every pair of distinct points (Cauchy-Schwarz + acos x <= pi/2 for x>=0); azimuth and azimuth+180 give the same selection; rotation by any (c,s) with c^2+s^2=1 keeps u.a, u x a and |u|, and rotating the azimuth rotates its direction vector accordingly. Tie: as C12 (same generated definitions) + symmetry runs on the implementation: tolerance 180 vs isotropic variogram, azimuth +-180, rotations by 90/180/-90/atan(3/4), sector tilings of width 90/60/45/30/20.',
    note='PARTIAL: the sector cover/partition clauses are tested, not proved. Known finding F16 (duplicated points: zero-length pairs never selected).',
    technique='Python->Coq translator + real trigonometry/algebra in Coq + symmetry oracle', ref='3 C13'),
 'C06': dict(
    text='State machine with provenance (Model/VarioSM.v): settings, caches stamped with the projection of the settings they were computed from, every setter with exactly the resets the code performs, lazy getters. Theorem (all finite sequences of assignments interleaved with reads, any start configuration, isotropic and directional): the invariant "every cache is empty or stamped with the current settings" is established by every read and preserved by every admissible setter, hence every read equals that of a fresh instance; the one excluded setter (use_nugget while coefficients are cached, finding F5) is proved to be a real counterexample (C06_use_nugget_refuted). Tie: the extracted model predicts, for every read of a history, the current settings and a validity bit; the harness runs the history on a real Variogram / DirectionalVariogram (dense shared MetricSpace, raw coordinates with truncated distances, elongated directional data) and compares with a fresh instance built from the predicted settings; exhaustive single assignments x all reads, ordered pairs, random histories to length 8 (12); failing histories are shrunk.',
    note='Equal settings give equal numbers only if curve_fit / KMeans are deterministic (trusted). Not modelled: fit_method=\'manual\' (no fresh equivalent without parameters), harmonize, normalize. Findings: F5 known (pinned by the suite); F6, F7, F8, F19, F20, F21, F22 fixed.',
    technique='Coq proof (invariant over a provenance state machine) + history-based correspondence with shrinking', ref='3 C06'),
 'C04': dict(
    text='Theorems (any number of parameters k, any coefficient values): for automatic fits the coefficient vector, `parameters` and the argument list rebuilt from describe() (what kriging and fitted_model_function(**describe()) use) all denote the same (range, sill, [shape]) and the same nugget (0 when disabled); for manual fits the same holds provided the nugget slot is 0 whenever use_nugget is off - and without that proviso the views provably disagree (C04_manual_nugget_mismatch_refuted = defect F2, fixed). Sums of models: slices by C03b. Tie: every configuration is fitted by the implementation; fitted_model, transform, data, the rebuilt model, OrdinaryKriging.gamma_model, VariogramEstimator.predict and the model called with `parameters` are evaluated at 18 lags incl. 0 and must coincide; parameters / kriging arguments against the extracted model; metrics against their documented definitions.',
    note='The optimiser result enters as the coefficient vector the implementation produced. Findings F2, F3 fixed.',
    technique='Coq proof over lists (data movement) + multi-view differential oracle', ref='3 C04'),
 'C05': dict(
    text='Theorems about the assembly of the least-squares problem (all lengths): lags, semivariances and weights handed to the optimiser are the same NaN-filtered positions (aligned triples); an empty lag class neither changes lags, semivariances nor weights (deleting it beforehand gives the same problem); the documented box (range <= largest edge, sill <= largest semivariance, shape <= 2/20, nugget <= 0.99 max); the wrapped model appends nugget 0. Tie: the (xdata, ydata, sigma, p0, bounds) of the recorded curve_fit call against the extracted model.',
    note='PARTIAL: that curve_fit returns a local minimiser inside the box and never ends worse than the initial guess is behaviour of SciPy: TESTED (box membership, objective vs initial guess, re-optimisation with tolerances 1e-12, insertion of an always-empty class), not proved. lm is covered only where it converges. Known findings F23 (stable: division by the shape bound 0) and F24 (weighted multi-parameter fits stop before a local minimum); F4 fixed.',
    technique='Coq proof over lists (problem assembly) + recorded-fit-call correspondence + re-optimisation test', ref='3 C05'),
}

PENDING_REASON = 'check not built yet in this round (work in progress; the property is within reach of the technique, see DESIGN.md section 3)'
ALL = ['C%02d' % i for i in range(1, 21)]

m = {
 'version': 1,
 'setup_cmd': 'sh tools/setup.sh',
 'hooks': {'guard': 'SKGSTAT_VERIF', 'enable': 'no source hooks are used; the harness wraps instance attributes from outside (SKGSTAT_VERIF is reserved)',
           'baseline_off_cmd': 'cd /repo && OMP_NUM_THREADS=1 OPENBLAS_NUM_THREADS=1 /venv/bin/python -m pytest -ra -q -p no:cacheprovider --timeout=900 --continue-on-collection-errors',
           'source_commits': [], 'add_only': True},
 'engines': [{'name': 'coq-model', 'path': 'coq', 'serves_properties': sorted(CLAIMED), 'kind_free_text': 'Coq 8.16.1 development: executable Gallina models, proofs, property files, extraction to OCaml'},
             {'name': 'harness', 'path': 'tools/harness', 'serves_properties': sorted(CLAIMED), 'kind_free_text': 'Python correspondence harness and oracles (run with /venv/bin/python against /repo)'}],
 'checks': [],
 'notes': 'Every check: ./check <id> [--tier quick|thorough] [--replay file]; known findings in known_findings.json; fixes to /repo are fix: commits listed there.',
 'not_applicable': [],
}
for pid in ALL:
    if pid in CLAIMED:
        c = CLAIMED[pid]
        m['checks'].append({
            'property_id': pid, 'quick_cmd': './check %s --tier quick' % pid, 'thorough_cmd': './check %s --tier thorough' % pid,
            'evidence_file': 'evidence/%s.json' % pid, 'replay_cmd_template': './check %s --replay {path}' % pid, 'engine': 'coq-model',
            'level_claimed': {'category': c.get('category', 'proof'), 'text': c['text'], 'design_ref': 'DESIGN.md section ' + c['ref']},
            'level_note': COMMON_NOTE + c['note'], 'technique': c['technique']})
    else:
        m['not_applicable'].append({'property_id': pid, 'reason': PENDING_REASON})
json.dump(m, open(os.path.join(V, 'MANIFEST.json'), 'w'), indent=1)
print('claimed', sorted(CLAIMED))
