#!/usr/bin/env python3
"""Regenerates /verif/MANIFEST.json from the table below (one entry per claimed property)."""
import json, os
V = os.path.abspath(os.path.join(os.path.dirname(__file__), '..'))

COMMON_NOTE = ('Trusted: Coq 8.16.1 kernel + vm_compute (no native_compute); axioms as printed by Print Assumptions per run '
               '(Q/list developments closed under the global context; R developments: ClassicalDedekindReals.sig_not_dec, sig_forall_dec, '
               'functional_extensionality_dep, Classical_Prop.classic from the standard library); extraction with ExtrOcamlBasic only + tools/ocaml/driver.ml; '
               'the correspondence harness (generators, tolerances); NumPy/SciPy/scikit-learn leaves modelled, not verified. ')

CLAIMED = {
 'C01': dict(
    text='Theorems (all n, all edge lists, all distances): the condensed enumeration is exactly the pairs i<j in scipy order; the overwrite loop of _calc_groups equals half-open intervals for every non-decreasing edge list; partition/uniqueness; classes, counts and the experimental vector are the estimator over exactly those pairs. Tied to the code on every run by a differential run of the extracted and in-Coq model against Variogram (groups, class contents, counts, alignment of distances and differences, sparse path), plus a brute-force oracle of the property statement.',
    note='Estimator formulas: exact-Q models of Matheron/Dowd/Genton compared with estimators.py; Cressie-Hawkins compared with the documented formula in floating point by the oracle only. Genton order statistic index read as the code has it (binom(N/2+1,2)).',
    technique='Coq proof (induction over lists) + extracted-model correspondence + brute-force oracle', ref='3 C01'),
}

PENDING_REASON = 'check not built yet in this round (work in progress; the property is within reach of the technique, see DESIGN.md section 3)'
ALL = ['C%02d' % i for i in range(1, 21)]

m = {
 'version': 1,
 'setup_cmd': 'sh tools/setup.sh',
 'hooks': {'guard': 'SKGSTAT_VERIF', 'enable': 'no source hooks are used; the harness wraps instance attributes from outside (SKGSTAT_VERIF is reserved)',
           'baseline_off_cmd': 'cd /repo && OMP_NUM_THREADS=1 OPENBLAS_NUM_THREADS=1 /venv/bin/python -m pytest -ra -q -p no:cacheprovider --timeout=900 --continue-on-collection-errors',
           'source_commits': [], 'add_only': True},
 'engines': [{'name': 'coq-model', 'path': 'coq', 'serves_properties': sorted(CLAIMED), 'kind_free_text': 'Coq 8.16.1 development: executable Gallina models, proofs, property files, extraction to OCaml'},
             {'name': 'harness', 'path': 'tools/harness', 'serves_properties': sorted(CLAIMED), 'kind_free_text': 'Python correspondence harness and oracles (run with /venv/bin/python against /repo)'}],
 'checks': [],
 'notes': 'Every check: ./check <id> [--tier quick|thorough] [--replay file]; known findings in known_findings.json; fixes to /repo are fix: commits listed there.',
 'not_applicable': [],
}
for pid in ALL:
    if pid in CLAIMED:
        c = CLAIMED[pid]
        m['checks'].append({
            'property_id': pid, 'quick_cmd': './check %s --tier quick' % pid, 'thorough_cmd': './check %s --tier thorough' % pid,
            'evidence_file': 'evidence/%s.json' % pid, 'replay_cmd_template': './check %s --replay {path}' % pid, 'engine': 'coq-model',
            'level_claimed': {'category': c.get('category', 'proof'), 'text': c['text'], 'design_ref': 'DESIGN.md section ' + c['ref']},
            'level_note': COMMON_NOTE + c['note'], 'technique': c['technique']})
    else:
        m['not_applicable'].append({'property_id': pid, 'reason': PENDING_REASON})
json.dump(m, open(os.path.join(V, 'MANIFEST.json'), 'w'), indent=1)
print('claimed', sorted(CLAIMED))
