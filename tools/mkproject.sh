#!/bin/sh
# regenerate coq/_CoqProject (file list) and coq/Makefile
cd "$(dirname "$0")/../coq" || exit 2
{
  echo "-Q . SG"
  echo "-arg -w -arg -notation-overridden,-deprecated-hint-without-locality,-deprecated-instance-without-locality"
  find Base Model Spec Gen Proofs Properties Extract -name '*.v' 2>/dev/null | LC_ALL=C sort
} > _CoqProject.new
if ! cmp -s _CoqProject.new _CoqProject || [ ! -f Makefile ]; then
  mv _CoqProject.new _CoqProject
  coq_makefile -f _CoqProject -o Makefile >/dev/null
else
  rm -f _CoqProject.new
fi
