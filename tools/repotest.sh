#!/bin/sh
# run the repository's test suite (single-threaded BLAS) and print the summary line + failures
cd "${1:-/repo}" && OMP_NUM_THREADS=1 OPENBLAS_NUM_THREADS=1 PYTHONPATH="${1:-/repo}" /venv/bin/python -m pytest -q -p no:cacheprovider -q 2>&1 | grep -E "^(FAILED|ERROR)|passed|failed" | tail -20
