#!/bin/sh
# tools/seed_matrix.sh [ids...] : apply every seeded change (default: all of /verif/seeded) to /repo, run the check of its
# property, revert; one line per seed in build/seed_matrix.log.  /repo must be clean.
cd /verif
[ -z "$(git -C /repo status --porcelain)" ] || { echo "/repo is not clean"; exit 2; }
ids="$@"; [ -n "$ids" ] || ids=$(ls seeded)
mkdir -p build; : > build/seed_matrix.log
for s in $ids; do
  p=$(echo $s | cut -c1-3)
  if ! git -C /repo apply seeded/$s/patch.diff 2>/dev/null; then (cd /repo && patch -p1 -F3 -s < /verif/seeded/$s/patch.diff >/dev/null 2>&1) || { echo "$s PATCH-DOES-NOT-APPLY" | tee -a build/seed_matrix.log; git -C /repo checkout -- .; continue; }; fi
  find /repo -name '*.orig' -delete; find /repo -name '*.rej' -delete
  out=$(./check $p 2>&1); rc=$?
  git -C /repo checkout -- .
  v=$(echo "$out" | grep -E "^VIOLATION" | head -1)
  w=$(echo "$out" | grep -E "^  - " | head -1 | cut -c1-200)
  echo "$s exit=$rc $v | $w" | tee -a build/seed_matrix.log
done
PYTHONPATH=/repo /venv/bin/python tools/py2coq.py >/dev/null 2>&1
