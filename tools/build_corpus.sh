#!/bin/sh
# tools/build_corpus.sh <matrix-log> : for every seeded change whose replay file holds a concrete case, keep that case in
# corpus/<property>/ if (a) re-running the single case on the seeded tree reports the violation and (b) re-running it on the
# unchanged tree does not.  Corpus cases run first in every check (tools/harness/*: vc.corpus_cases).  /repo must be clean.
cd /verif
[ -z "$(git -C /repo status --porcelain)" ] || { echo "/repo is not clean"; exit 2; }
log="$1"
grep "exit=1" "$log" | while read -r line; do
  s=$(echo "$line" | cut -d' ' -f1)
  p=$(echo $s | cut -c1-3)
  r=$(echo "$line" | sed -n 's/.*replay=\([^ ]*\).*/\1/p')
  [ -f "$r" ] || continue
  /venv/bin/python - "$r" <<'PY' || continue
import json,sys
d=json.load(open(sys.argv[1]))
sys.exit(0 if isinstance(d.get('case'), dict) else 1)
PY
  if ! git -C /repo apply /verif/seeded/$s/patch.diff 2>/dev/null; then (cd /repo && patch -p1 -F3 -s < /verif/seeded/$s/patch.diff >/dev/null 2>&1) || { git -C /repo checkout -- .; continue; }; fi
  find /repo -name '*.orig' -delete; find /repo -name '*.rej' -delete
  VERIF_REPLAY_STRICT=1 ./check $p --replay "$r" >/dev/null 2>&1; rc_seeded=$?
  git -C /repo checkout -- .
  if [ "$rc_seeded" = "1" ]; then
    VERIF_REPLAY_STRICT=1 ./check $p --replay "$r" >/dev/null 2>&1; rc_clean=$?
    if [ "$rc_clean" = "0" ]; then
      mkdir -p corpus/$p
      /venv/bin/python - "$r" corpus/$p/$s.json <<'PY'
import json,sys
d=json.load(open(sys.argv[1]))
c=d['case']; c['corpus_origin']='minimal failing case of seeded change '+sys.argv[2].split('/')[-1][:-5]
json.dump(c, open(sys.argv[2],'w'))
PY
      echo "$s kept"
    else
      echo "$s not kept (clean tree rc=$rc_clean)"
    fi
  else
    echo "$s not kept (seeded tree rc=$rc_seeded in isolation)"
  fi
done
PYTHONPATH=/repo /venv/bin/python tools/py2coq.py >/dev/null 2>&1
