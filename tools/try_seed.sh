#!/bin/sh
# tools/try_seed.sh <patch> <check-id> [more check ids]: apply a seeded change to /repo, run checks, undo it.
patch="$1"; shift
cd /repo || exit 2
git diff --quiet || { echo "/repo not clean"; exit 2; }
if ! git apply --check "$patch" 2>/dev/null; then
  if ! patch -p1 --dry-run -F3 < "$patch" >/dev/null 2>&1; then echo "PATCH-DOES-NOT-APPLY $patch"; exit 3; fi
  patch -p1 -F3 -s < "$patch"
else
  git apply "$patch"
fi
for id in "$@"; do
  (cd /verif && ./check "$id" 2>&1 | grep -v "WARNING" | grep -E "VIOLATION|KNOWN|tier=|CHECK-ERROR|^  - " | head -8)
done
git -C /repo checkout -- . ; git -C /repo clean -fdq -e '*.orig' ; find /repo -name '*.orig' -newer /verif/tools/try_seed.sh -delete 2>/dev/null
git -C /repo status --short | head -3
