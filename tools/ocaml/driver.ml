(* Generic driver around the extracted model: one case per input line "<fnid-hex> <val>",
   one output line per case.  Numbers are hexadecimal; Z/positive/Q are the extracted
   inductive types (no machine integers in the model). *)
open Model

let hexval c =
  match c with
  | '0'..'9' -> Char.code c - 48
  | 'a'..'f' -> Char.code c - 87
  | _ -> failwith "hex"

(* bits MSB first *)
let bits_of_hex (s : string) : bool list =
  let l = ref [] in
  String.iter (fun c -> let v = hexval c in
    l := ((v land 1) <> 0) :: ((v land 2) <> 0) :: ((v land 4) <> 0) :: ((v land 8) <> 0) :: !l) s;
  List.rev !l

let z_of_hex (s : string) : z =
  let neg, s = if String.length s > 0 && s.[0] = '-' then true, String.sub s 1 (String.length s - 1) else false, s in
  let rec drop = function false :: r -> drop r | l -> l in
  match drop (bits_of_hex s) with
  | [] -> Z0
  | _ :: r ->
    let p = List.fold_left (fun p b -> if b then XI p else XO p) XH r in
    if neg then Zneg p else Zpos p

let pos_of_hex s = match z_of_hex s with Zpos p -> p | _ -> failwith "positive expected"

let hex_of_pos (p : positive) : string =
  (* bits LSB first *)
  let rec bits p acc = match p with XH -> true :: acc | XO p -> bits p (false :: acc) | XI p -> bits p (true :: acc) in
  let msb_first = bits p [] in           (* acc builds MSB first since we cons while descending to the MSB *)
  let msb_first = List.rev (List.rev msb_first) in
  let n = List.length msb_first in
  let pad = (4 - n mod 4) mod 4 in
  let l = (List.init pad (fun _ -> false)) @ msb_first in
  let buf = Buffer.create 16 in
  let rec go = function
    | a :: b :: c :: d :: r ->
      let v = (if a then 8 else 0) + (if b then 4 else 0) + (if c then 2 else 0) + (if d then 1 else 0) in
      Buffer.add_char buf "0123456789abcdef".[v]; go r
    | [] -> ()
    | _ -> failwith "pad" in
  go l; Buffer.contents buf

let hex_of_z = function Z0 -> "0" | Zpos p -> hex_of_pos p | Zneg p -> "-" ^ hex_of_pos p

let rec print_val buf (v : val0) =
  match v with
  | VZ z -> Buffer.add_char buf 'z'; Buffer.add_string buf (hex_of_z z)
  | VQ q -> Buffer.add_char buf 'q'; Buffer.add_string buf (hex_of_z q.qnum);
    Buffer.add_char buf '/'; Buffer.add_string buf (hex_of_pos q.qden)
  | VB b -> Buffer.add_char buf (if b then 't' else 'f')
  | VNone -> Buffer.add_char buf 'n'
  | VL l -> Buffer.add_string buf "[";
    List.iter (fun x -> Buffer.add_char buf ' '; print_val buf x) l; Buffer.add_string buf " ]"

let parse_val (toks : string list) : val0 * string list =
  let rec one = function
    | [] -> failwith "eof"
    | "[" :: r -> let rec many acc r = (match r with
        | "]" :: r' -> (VL (List.rev acc), r')
        | _ -> let (v, r') = one r in many (v :: acc) r') in many [] r
    | "t" :: r -> (VB true, r)
    | "f" :: r -> (VB false, r)
    | "n" :: r -> (VNone, r)
    | tok :: r ->
      let body = String.sub tok 1 (String.length tok - 1) in
      (match tok.[0] with
       | 'z' -> (VZ (z_of_hex body), r)
       | 'q' -> (match String.index_opt body '/' with
           | Some k -> (VQ { qnum = z_of_hex (String.sub body 0 k);
                             qden = pos_of_hex (String.sub body (k+1) (String.length body - k - 1)) }, r)
           | None -> failwith "q")
       | _ -> failwith ("token " ^ tok)) in
  one toks

let () =
  let buf = Buffer.create 65536 in
  (try
    while true do
      let line = input_line stdin in
      if String.length line > 0 then begin
        let toks = List.filter (fun s -> s <> "") (String.split_on_char ' ' line) in
        (match toks with
         | f :: rest ->
           let (a, _) = parse_val rest in
           let r = run (z_of_hex f) a in
           Buffer.clear buf; print_val buf r; print_string (Buffer.contents buf); print_newline ()
         | [] -> ())
      end
    done
  with End_of_file -> ())
