#!/bin/sh
# tools/confirm_seed.sh Cxx a|b : confirm a seeded change in a scratch worktree of /repo (outside /repo and /verif):
#  demo passes on the clean tree, fails with the patch; the repository's suite still passes with the patch.
id="$1"; var="$2"
src=/verif/seeded/$id$var
wt=$(mktemp -d /tmp/confirm_${id}${var}_XXXX)
rmdir "$wt"
git -C /repo worktree add -q --detach "$wt" HEAD || exit 2
export OMP_NUM_THREADS=1 OPENBLAS_NUM_THREADS=1 NUMBA_NUM_THREADS=1 PYTHONPATH="$wt" PYTHONHASHSEED=0
cd "$wt"
clean=$(timeout 900 /venv/bin/python -W ignore "$src/demo.py" >/dev/null 2>&1; echo $?)
applied=yes
if ! git apply "$src/patch.diff" 2>/dev/null; then
  patch -p1 -F3 -s < "$src/patch.diff" >/dev/null 2>&1 || applied=no
fi
find . -name '*.orig' -delete; find . -name '*.rej' -delete
patched=$(timeout 900 /venv/bin/python -W ignore "$src/demo.py" >/dev/null 2>&1; echo $?)
fails=$(timeout 1500 /venv/bin/python -m pytest -q -p no:cacheprovider -q 2>&1 | grep -E "^(FAILED|ERROR)" | grep -v "test_tdist_func\|test_fit_bounds\|test_fit_p0" | wc -l)
cd /
git -C /repo worktree remove --force "$wt"
echo "$id$var applied=$applied demo_clean_exit=$clean demo_patched_exit=$patched new_suite_failures=$fails"
