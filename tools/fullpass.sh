#!/bin/sh
# tools/fullpass.sh [seeds...]: run every check's quick command for the given seeds, print one line per run
cd "$(dirname "$0")/.." || exit 2
[ -x build/ocaml/driver ] || sh tools/setup.sh >/dev/null 2>&1
for s in "${@:-1}"; do
  for p in C01 C02 C03 C04 C05 C06 C07 C08 C09 C10 C11 C12 C13 C14 C15 C16 C17 C18 C19 C20; do
    VERIF_SEED=$s ./check $p --tier quick 2>&1 | grep -E "tier=|^VIOLATION|^  - |CHECK-ERROR" | cut -c1-220
  done
done
