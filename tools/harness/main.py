import sys, os, argparse, importlib, json, traceback
sys.path.insert(0, os.path.dirname(__file__))
import core


def main():
    ap = argparse.ArgumentParser()
    ap.add_argument('prop')
    ap.add_argument('--tier', default=os.environ.get('VERIF_TIER', 'quick'))
    ap.add_argument('--replay')
    ap.add_argument('--seed', type=int, default=int(os.environ.get('VERIF_SEED', '20260930')))
    a = ap.parse_args()
    tier = a.tier if a.tier in ('quick', 'thorough') else 'quick'
    mod = importlib.import_module(a.prop.lower())
    ctx = core.Ctx(a.prop, tier, a.seed)
    try:
        rc = mod.run(ctx, replay=json.load(open(a.replay)) if a.replay else None)
    except Exception:
        traceback.print_exc()
        print('CHECK-ERROR property=%s (harness failure, not a verdict)' % a.prop)
        rc = 2
    sys.exit(rc)


main()
