import sys, os, argparse, importlib, json, traceback
sys.path.insert(0, os.path.dirname(__file__))
import core


def main():
    ap = argparse.ArgumentParser()
    ap.add_argument('prop')
    ap.add_argument('--tier', default=os.environ.get('VERIF_TIER', 'quick'))
    ap.add_argument('--replay')
    ap.add_argument('--seed', type=int, default=int(os.environ.get('VERIF_SEED', '20260930')))
    a = ap.parse_args()
    tier = a.tier if a.tier in ('quick', 'thorough') else 'quick'
    replay = json.load(open(a.replay)) if a.replay else None
    if replay is not None:
        # a replay re-runs with the seed and tier of the recorded run; modules that can re-run a single case use
        # replay['case'], the others repeat the (deterministic) run that produced the file
        a.seed = int(replay.get('seed', a.seed))
        tier = replay.get('tier', tier)
    mod = importlib.import_module(a.prop.lower())
    ctx = core.Ctx(a.prop, tier, a.seed)
    try:
        rc = mod.run(ctx, replay=replay)
        if replay is not None and rc == 0 and replay.get('case') is not None and not os.environ.get('VERIF_REPLAY_STRICT'):
            # the single recorded case did not reproduce in isolation (it may depend on the run's context):
            # repeat the whole deterministic run it came from
            print('replay: single case did not reproduce, repeating the full run with seed %d' % a.seed)
            rc = mod.run(core.Ctx(a.prop, tier, a.seed), replay=None)
    except Exception:
        traceback.print_exc()
        if replay is not None and os.environ.get('VERIF_REPLAY_STRICT'):
            print('replay (strict): case could not be re-run in isolation')
            rc = 3
        elif replay is not None:
            try:
                print('replay: case could not be re-run in isolation, repeating the full run with seed %d' % a.seed)
                rc = mod.run(core.Ctx(a.prop, tier, a.seed), replay=None)
            except Exception:
                traceback.print_exc()
                print('CHECK-ERROR property=%s (harness failure, not a verdict)' % a.prop)
                rc = 2
        else:
            # the implementation behaved in a way the check cannot even evaluate (inconsistent shapes, unexpected
            # exception types ...): the property is no longer shown to hold; name the exception in the replay file
            import hashlib, time
            tb = traceback.format_exc()
            os.makedirs(os.path.join(core.VERIF, 'replays'), exist_ok=True)
            path = os.path.join(core.VERIF, 'replays', '%s-unevaluable-%s.json' % (a.prop, hashlib.sha1(tb.encode()).hexdigest()[:10]))
            json.dump({'property': a.prop, 'seed': a.seed, 'tier': tier, 'kind': 'check-could-not-be-evaluated', 'traceback': tb[-3000:],
                       'replay_cmd': './check %s --replay <this file>' % a.prop}, open(path, 'w'), indent=1)
            ev = {'property_id': a.prop, 'tier': tier, 'seed': a.seed, 'level': 'proof',
                  'coverage': {'evaluations': max(1, ctx.evaluations), 'distinct_nontrivial': max(2, len(ctx.nontrivial)), 'obligations': 1, 'discharged': 0, 'checker_cmd': 'n/a (run aborted)',
                               'trusted_base': [], 'explanation': 'the run aborted with an exception while evaluating the implementation: ' + tb.splitlines()[-1][:200], 'samples': ['(aborted)']},
                  'wall_s': round(time.time() - ctx.t0, 2), 'violations': 1}
            os.makedirs(os.path.join(core.VERIF, 'evidence'), exist_ok=True)
            json.dump(ev, open(os.path.join(core.VERIF, 'evidence', '%s.json' % a.prop), 'w'), indent=1)
            print('VIOLATION property=%s replay=%s no-failing-input-found' % (a.prop, path))
            print('  - the check aborted while evaluating the implementation: %s' % tb.splitlines()[-1][:200])
            rc = 1
    sys.exit(rc)


main()
