"""C08 - ordinary kriging is an exact and unbiased interpolator (algebra in Properties/C08.v;
metamorphic runs of the implementation; C07 correspondence ties the model to the code)."""
import numpy as np
import core, gen, krige_common as kc, vario_common as vc

CND = ('spherical', 'exponential', 'cubic', 'stable', 'matern')


def krige(setup, values=None, vkw=None):
    s = dict(setup)
    if vkw is not None:
        s['vkw'] = vkw
    V = kc.make_variogram(s, values=values)
    ok, _ = kc.make_ok(s, V=V)
    rec = kc.Recorder(ok)
    z = np.asarray(kc.run_transform(ok, s['targets']), float)
    ok._verif_maxcond = max([np.linalg.cond(a) for a, b, lam, err in rec.calls] + [1.0])
    return z, np.asarray(ok.sigma, float), ok, V


def cmp(ctx, setup, what, a, b, rel=1e-6, abs_=1e-7):
    for i, (x, y) in enumerate(zip(a, b)):
        if not gen.close(x, y, rel, abs_):
            ctx.problem('oracle', what, setup, {'target': i, 'point': setup['targets'][i], 'got': float(x), 'expected': float(y)}, {'what': what})
            return False
    return True


def run(ctx, replay=None):
    coq = core.Coq('C08')
    coq.build()
    model = core.Model()
    rng = ctx.rng
    try:
        n = 40 if not ctx.thorough() else 400
        setups = [replay['case']] if replay and replay.get('case') else vc.corpus_cases('C08') + [kc.gen_setup(rng, nmax=30) for _ in range(n)]
        for s in setups:
            if s['model'] not in CND:
                s['model'] = rng.choice(CND)
                s['tags']['model'] = s['model']
                if 'fit_shape' in s['vkw'] and s['model'] not in ('stable', 'matern'):
                    s['vkw'].pop('fit_shape')
                if s['model'] in ('stable', 'matern') and s['vkw'].get('fit_method') == 'manual':
                    s['vkw']['fit_shape'] = 1.0
            # truncated (sparse) distance handling only where it is defined: Euclidean metric, bounded-range model
            s['sparse'] = (bool(s.get('sparse')) or rng.random() < 0.5) and s['metric'] == 'euclidean' and s['model'] in ('spherical', 'cubic') and not s.get('mkw')
            ctx.count('sparse_option', s['sparse'])
            r = kc.check_setup(ctx, model, s, oracle=True, prop='C08')
            if r is None:
                continue
            ok, V, z, sg = r
            try:
                _z, _s, okc, _ = krige(s)
                if okc._verif_maxcond > 1e7:
                    ctx.count('illconditioned_setup_skipped')
                    continue
            except Exception:
                continue
            manual = s['vkw'].get('fit_method') == 'manual'
            sill = float(V.describe()['sill'])
            nug = float(V.describe()['nugget'])
            est = ~np.isnan(z)
            ctx.count('nugget_zero', nug == 0)
            done = 0
            # exactness at observed locations (zero nugget): every observation is its own nearest neighbour
            if nug == 0 and s['min_points'] <= 1 or (nug == 0):
                obs, _ = kc.dedup(s['coords'], s['values'])
                pick = [rng.randrange(len(obs)) for _ in range(min(6, len(obs)))]
                so = dict(s, targets=obs[pick].tolist())
                try:
                    zo, sgo, oko, _ = krige(so)
                    # the same instance after a detour through the approximate mode: still exact at the observations
                    try:
                        oko.mode = 'estimate'
                        try:
                            kc.run_transform(oko, so['targets'])
                        except Exception:
                            pass
                        oko.mode = 'exact'
                        zo2 = np.asarray(kc.run_transform(oko, so['targets']), float)
                        sgo2 = np.asarray(oko.sigma, float)
                        for t_ in range(len(zo)):
                            if zo[t_] == zo[t_] and not (gen.close(zo2[t_], zo[t_], 1e-6, 1e-6) and gen.close(sgo2[t_], sgo[t_], 1e-6, 1e-6)):
                                ctx.problem('oracle', 'kriging at an observed location: the result of exact mode changes after the instance was used in estimate mode', so,
                                            {'target': t_, 'first': [float(zo[t_]), float(sgo[t_])], 'after_detour': [float(zo2[t_]), float(sgo2[t_])]}, {'what': 'exactness-mode-history'})
                                break
                    except Exception as e:
                        ctx.count('mode_detour_rejected', type(e).__name__)
                    if oko._verif_maxcond > 1e7:
                        raise ArithmeticError('illconditioned')
                    _, vals = kc.dedup(s['coords'], s['values'])
                    for t, j in enumerate(pick):
                        if zo[t] != zo[t]:
                            continue
                        cond_ok = True
                        if not gen.close(zo[t], vals[j], 1e-6, 1e-6 * max(1.0, abs(vals[j]))):
                            ctx.problem('oracle', 'kriging at an observed location (zero nugget) does not return the observed value', so,
                                        {'target': t, 'point': so['targets'][t], 'z': float(zo[t]), 'observed': float(vals[j])}, {'what': 'exactness'})
                            break
                        if abs(sgo[t]) > 1e-6 * max(1.0, sill):
                            ctx.problem('oracle', 'kriging variance at an observed location (zero nugget) is not zero', so,
                                        {'target': t, 'sigma': float(sgo[t]), 'sill': sill}, {'what': 'exactness-variance'})
                            break
                    done += 1
                except Exception as e:
                    ctx.count('exactness_rejected', type(e).__name__)
            v = np.array(s['values'], float)
            if manual:
                # shift
                c = float(rng.choice([8.0, -100.0, 0.5]))
                z2, sg2, _, _ = krige(s, values=v + c)
                cmp(ctx, s, 'adding a constant to the observations does not add it to every estimate', z2[est], z[est] + c)
                cmp(ctx, s, 'adding a constant to the observations changes the kriging variances', sg2[est], sg[est])
                # the same laws with the observations handed to the kriging instance directly (values=...), variogram object unchanged
                if not s.get('mkw') and not s.get('coords_dtype'):
                    try:
                        from skgstat import OrdinaryKriging
                        kwv = dict(min_points=s['min_points'], max_points=s['max_points'], solver=s['solver'], sparse=s['sparse'])
                        okv = OrdinaryKriging(V, values=v + c, **kwv)
                        zv = np.asarray(kc.run_transform(okv, s['targets']), float)
                        cmp(ctx, s, 'observations passed as values= (shifted by c): the constant is not added to every estimate', zv[est], z[est] + c)
                        okv2 = OrdinaryKriging(V, coordinates=np.array(s['coords'], float), values=np.full(len(v), 2.5), **kwv)
                        zv2 = np.asarray(kc.run_transform(okv2, s['targets']), float)
                        cmp(ctx, s, 'observations passed as values= (constant field) are not reproduced', zv2[est], np.full(int(est.sum()), 2.5))
                        done += 1
                    except Exception as e:
                        ctx.count('values_keyword_rejected', type(e).__name__)
                # scale k, sill and nugget * k^2
                k = float(rng.choice([2.0, -3.0, 0.5, 1e-5, 4096.0]))       # incl. a change of unit by several orders of magnitude
                vk = dict(s['vkw'])
                vk['fit_sill'] = vk['fit_sill'] * k * k
                if 'fit_nugget' in vk:
                    vk['fit_nugget'] = vk['fit_nugget'] * k * k
                z3, sg3, _, _ = krige(s, values=v * k, vkw=vk)
                cmp(ctx, s, 'scaling observations by k (sill, nugget by k^2) does not scale the estimates by k', z3[est], z[est] * k, 1e-6, 1e-7 * abs(k))
                cmp(ctx, s, 'scaling observations by k (sill, nugget by k^2) does not scale the variances by k^2', sg3[est], sg[est] * k * k, 1e-6, 1e-7 * max(1.0, sill) * k * k)
                # constant field
                c0 = float(rng.choice([3.0, -7.25]))
                z4, sg4, _, _ = krige(s, values=np.full(len(v), c0))
                cmp(ctx, s, 'a constant field is not reproduced', z4[est], np.full(int(est.sum()), c0))
                done += 3
            # variances are never negative beyond rounding
            # (conditional negative definiteness of the models is a statement about the euclidean distance)
            bad = [i for i in range(len(sg)) if s['metric'] == 'euclidean' and sg[i] == sg[i] and sg[i] < -1e-7 * max(1.0, sill + nug)]
            if bad:
                ctx.problem('oracle', 'negative kriging variance for a conditionally negative definite model', s,
                            {'target': bad[0], 'sigma': float(sg[bad[0]]), 'model': s['model']}, {'what': 'negative-variance'})
            ctx.tests['metamorphic_runs'] = ctx.tests.get('metamorphic_runs', 0) + done + 1
        vc.run_golden(ctx, coq, model)
    finally:
        model.close()
    ctx.extra['rule'] = ('kriging set-ups as C07 (dense, models spherical/exponential/cubic/stable/matern); per set-up: exactness at observed locations (zero nugget), '
                         'shift c, scale k with sill/nugget k^2, constant field, sign of the variance; non-trivial = >= 2 solved targets')
    ctx.extra['note_scaling'] = "the property's k^2 law for the variance is read with the variogram's sill and nugget multiplied by k^2 (they are semivariances); Properties/C08.v proves it for any factor c"
    return core.finish(ctx, coq, kc.TRUSTED, kc.ASSUME + ['non-negativity of the variance is tested, not proved (needs conditional negative definiteness of the model)'])
