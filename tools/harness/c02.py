"""C02 - lag edges are well-formed and honour n_lags / maxlag for every binning method."""
import math
import numpy as np
from scipy.spatial.distance import pdist
import core, gen, vario_common as vc
from skgstat import binning

FORM = {'none': None, 'median': 1, 'mean': 2}
AUTO = ['sturges', 'scott', 'sqrt', 'doane', 'fd', 'rice']


def wire_form(maxlag):
    if maxlag is None:
        return None
    if isinstance(maxlag, str):
        return FORM[maxlag]
    return float(maxlag)


def effective_maxlag(maxlag, d):
    """the property's definition, from the true pair distances d"""
    mx = float(np.max(d))
    if maxlag is None:
        return mx
    if maxlag == 'median':
        return float(np.median(d))
    if maxlag == 'mean':
        return float(np.mean(d))
    if maxlag < 1:
        return float(maxlag) * mx
    return min(float(maxlag), mx)


def lists_close(a, b, rel=1e-11):
    return len(a) == len(b) and all(gen.close(x, y, rel, 1e-12) for x, y in zip(a, b))


def check_edges(ctx, model, case, method, n, edges, reported_n, D_impl, M_impl, d_true, M_eff, custom=None, path='direct'):
    """model correspondence (on what the implementation passed to the binning function) + oracle."""
    edges = [float(e) for e in edges]
    within = [x for x in D_impl if x <= M_impl]
    ctx.disagreements_checked += 1
    gold = len(D_impl) <= 25 and len(model.golden) < 40
    # ---- correspondence
    if method == 'even':
        me = model('even', n, M_impl, golden=gold)
        if not lists_close([float(x) for x in me], edges):
            ctx.problem('correspondence', "even-width edges differ from Binning.even", case, {'model': [float(x) for x in me][:12], 'impl': edges[:12]})
    elif method == 'uniform':
        mu = model('uniform', n, D_impl, M_impl, golden=gold)
        if len(mu) != len(edges) or not all((x is None and e != e) or (x is not None and gen.close(float(x), e, 1e-11, 1e-12)) for x, e in zip(mu, edges)):
            ctx.problem('correspondence', "uniform-count edges differ from Binning.uniform", case, {'model': [None if x is None else float(x) for x in mu][:12], 'impl': edges[:12]})
    elif method in AUTO:
        if within and min(within) < max(within):      # numpy widens a zero-width range by +-0.5 (outside the property's guard)
            ma = model('auto_edges', len(edges), min(within), max(within), golden=gold)
            if not lists_close([float(x) for x in ma], edges):
                ctx.problem('correspondence', "rule-based edges differ from Binning.auto_edges", case, {'model': [float(x) for x in ma][:12], 'impl': edges[:12]})
    elif method in ('kmeans', 'ward'):
        cen, prev = [], 0.0
        for e in edges:
            c = 2 * e - prev
            cen.append(c)
            prev = c
        mm = model('mid_edges', cen)
        if not lists_close([float(x) for x in mm], edges, 1e-9):
            ctx.problem('correspondence', 'clustering edges are not mid-points of consecutive centres (Binning.mid_edges)', case, {'centres': cen[:12], 'impl': edges[:12]})
        tol = 1e-9 * max(1.0, max(within) if within else 1.0)
        if within and not (all(cen[i] <= cen[i + 1] + tol for i in range(len(cen) - 1)) and min(cen) >= min(within) - tol and max(cen) <= max(within) + tol):
            ctx.problem('correspondence', 'cluster centres recovered from the edges are not sorted inside the data range (contract of mid_edges)', case,
                        {'centres': cen[:12], 'range': [min(within), max(within)]})
    elif method == 'custom':
        if edges != [float(x) for x in custom]:
            ctx.problem('oracle', 'user-supplied edges are not used verbatim', case, {'given': custom, 'used': edges})
    # ---- oracle: the property statement (guard: at least two distinct distances within the effective maxlag)
    inside = sorted(set(float(x) for x in d_true if x <= M_eff))
    if len(inside) < 2 or method == 'custom':
        ctx.count('guard', 'not-met' if method != 'custom' else 'custom')
        return len(inside) >= 2
    tol = 1e-11 * max(1.0, abs(M_eff))
    sig = {'what': 'edges', 'method': method, 'path': path}
    if not all(math.isfinite(e) for e in edges):
        ctx.problem('oracle', 'lag edges are not finite', case, {'edges': edges}, sig)
    elif any(edges[i] > edges[i + 1] + tol for i in range(len(edges) - 1)):
        ctx.problem('oracle', 'lag edges decrease', case, {'edges': edges}, sig)
    elif reported_n is not None and len(edges) != reported_n:
        ctx.problem('oracle', 'n_lags reports %r but there are %d lag edges' % (reported_n, len(edges)), case, {'edges': edges}, sig)
    elif max(edges) > M_eff + tol:
        ctx.problem('oracle', 'a lag edge (%r) exceeds the effective maximum lag %r' % (max(edges), M_eff), case, {'edges': edges, 'M_eff': M_eff}, sig)
    elif method == 'even' and len(edges) == n and path == 'dense' and edges[-1] != M_eff:
        ctx.problem('oracle', "the last 'even' edge (%r) is not exactly the effective maximum lag %r" % (edges[-1], M_eff), case, {'edges': edges, 'M_eff': M_eff}, dict(sig, exact='last-edge'))
    elif method == 'even' and len(edges) == n:
        w = M_eff / n
        want = [w * (i + 1) for i in range(n)]
        if len(edges) != n or not lists_close(want, edges, 1e-10):
            s2 = dict(sig)
            if path == 'sparse' and lists_close([max(D_impl) / n * (i + 1) for i in range(n)], edges, 1e-10):
                s2 = {'what': 'sparse-maxlag-clipped-to-largest-stored-distance', 'method': 'even'}
            ctx.problem('oracle', "'even' edges are not n equal-width classes ending at the effective maximum lag %r" % M_eff, case, {'edges': edges, 'M_eff': M_eff}, s2)
    elif method == 'uniform':
        dd = np.array([x for x in d_true if x <= M_eff])
        want = [float(np.percentile(dd, 100.0 * (i + 1) / n)) for i in range(n)]
        if not lists_close(want, edges, 1e-10):
            ctx.problem('oracle', "'uniform' edges are not the i/n quantiles of the distances within the effective maximum lag", case, {'edges': edges[:12], 'quantiles': want[:12]}, sig)
    elif method in AUTO and path == 'sparse' and max(edges) < max(inside) - tol:
        pass
    return True


def run(ctx, replay=None):
    coq = core.Coq('C02')
    coq.build()
    model = core.Model()
    rng = ctx.rng
    try:
        nv = 120 if not ctx.thorough() else 1200
        nd = 180 if not ctx.thorough() else 1800
        cases = [replay['case']] if replay and replay.get('case') and not replay['case'].get('setter') else None
        # ---- stream 1: through Variogram
        vcases = cases if cases is not None else [c for c in vc.corpus_cases('C02')] + vc.gen_cases(ctx, nv, nmax=28)
        for case in vcases:
            if case.get('direct'):
                continue
            try:
                V = vc.build(case)
                edges = np.array(V.bins, dtype=float)          # a copy: the harness never holds the instance's own array
                D = np.asarray(V.distance, dtype=float)
                nl = V.n_lags
                Mres = V.maxlag
            except Exception as e:
                ctx.count('rejected', type(e).__name__)
                ctx.case_done(case, False)
                continue
            method = 'custom' if case.get('bins') is not None else case['bin_func']
            ctx.count('method', method)
            ctx.count('maxlag_form', case['tags']['maxlag_form'])
            d_true = pdist(np.array(case['coords'], dtype=float), case['dist_func'])
            sparse = not isinstance(V.distance_matrix, np.ndarray)
            if method != 'custom':
                # maxlag resolution vs model
                mres = model('resolve_maxlag', wire_form(case['maxlag']), D.tolist())
                if (mres is None) != (Mres is None) or (mres is not None and not gen.close(float(mres), float(Mres), 1e-11)):
                    ctx.problem('correspondence', 'resolved maxlag differs from Binning.resolve_maxlag', case, {'model': None if mres is None else float(mres), 'impl': Mres})
                Mclip = model('clip_maxlag', None if Mres is None else float(Mres), D.tolist())
                M_impl = float(Mclip)
                M_eff = effective_maxlag(case['maxlag'], d_true)
            else:
                M_impl = M_eff = float(max(case['bins']))
            nt = check_edges(ctx, model, case, method, int(case['n_lags']), edges, int(nl), D.tolist(), M_impl, d_true, M_eff,
                             custom=case.get('bins'), path='sparse' if sparse else 'dense')
            if method == 'custom' and (int(nl) != len(case['bins']) or float(V.maxlag) != float(max(case['bins']))):
                ctx.problem('oracle', 'custom edges: n_lags / maxlag do not follow the supplied edges', case, {'n_lags': int(nl), 'maxlag': V.maxlag})
            # the edges are the instance's: a caller rescaling the returned array (a normalised plot does) does not move them
            try:
                b_ = V.bins
                b_ *= 0.5
                again = np.asarray(V.bins, dtype=float)
                if len(again) != len(edges) or not np.array_equal(again, edges, equal_nan=True):
                    ctx.problem('oracle', 'after the caller rescaled the array returned by bins, the lag edges of the instance changed', case,
                                {'before': edges.tolist()[:10], 'after': again.tolist()[:10]}, {'what': 'returned-edges-alias', 'method': method})
            except Exception as e:
                ctx.count('reread_rejected', type(e).__name__)
            ctx.case_done(case, bool(nt) and len(set(edges.tolist())) >= 2)
        # ---- stream 2: binning functions called directly on distance multisets
        dcases = [] if cases is not None and not cases[0].get('direct') else (cases or [])
        if cases is None:
            for t in range(nd):
                k = rng.choice([2, 3, 4, 5, 8, 13, 30, 60])
                kind = rng.choice(['ints', 'ties', 'dyadic', 'two'])
                if kind == 'ints':
                    d = [float(rng.randint(1, 12)) for _ in range(k)]
                elif kind == 'ties':
                    d = [float(rng.choice([1, 1, 2, 5])) for _ in range(k)]
                elif kind == 'two':
                    d = [float(rng.choice([3, 7])) for _ in range(k)]
                else:
                    d = [rng.randint(1, 4096) / 128.0 for _ in range(k)]
                method = rng.choice(['even', 'uniform', 'uniform', 'kmeans', 'ward'] + AUTO)
                n = rng.randint(1, 9)
                ml = rng.choice([None, None, float(max(d)) + 1.0, float(max(d)), float(sorted(d)[len(d) // 2]), float(rng.randint(1, 12))])
                dcases.append({'direct': True, 'd': d, 'method': method, 'n': n, 'maxlag': ml})
        for case in dcases:
            d = np.array(case['d'], dtype=float)
            method, n, ml = case['method'], case['n'], case['maxlag']
            ctx.count('direct_method', method)
            try:
                if method == 'even':
                    edges, rn = binning.even_width_lags(d, n, ml)
                elif method == 'uniform':
                    edges, rn = binning.uniform_count_lags(d, n, ml)
                elif method == 'kmeans':
                    edges, rn = binning.kmeans(d, n, ml)
                elif method == 'ward':
                    edges, rn = binning.ward(d, n, ml)
                else:
                    edges, rn = binning.auto_derived_lags(d, method, ml)
            except Exception as e:
                ctx.count('direct_rejected', type(e).__name__)
                ctx.case_done(case, False)
                continue
            M_impl = float(model('clip_maxlag', ml, d.tolist()))
            M_eff = float(np.max(d)) if ml is None else min(float(ml), float(np.max(d)))
            nt = check_edges(ctx, model, case, method, n, edges, rn if rn is not None else n, d.tolist(), M_impl, d, M_eff)
            ctx.case_done(case, bool(nt) and len(set(np.asarray(edges).tolist())) >= 2)
        # ---- stream 3: maxlag assigned on an existing instance (dense MetricSpace), after a first read
        from skgstat import Variogram, MetricSpace
        ns = 0 if cases is not None else (60 if not ctx.thorough() else 600)
        for t in range(ns):
            kind, c = gen.point_set(rng, nmax=18, kind=rng.choice(['lattice', 'line', 'dyadic']))
            _, v = gen.values(rng, len(c))
            method = rng.choice(['even', 'uniform'] + AUTO)
            n = rng.randint(2, 8)
            ml = rng.choice([1, 1.0, 1, 2, 3.0, 0.5, 0.75, 'median', 'mean', None])
            first = rng.choice([None, 0.5, 0.25, 'median'])     # never an absolute value: that would truncate the distance data itself
            case = {'setter': True, 'coords': c.tolist(), 'values': v.tolist(), 'method': method, 'n': n, 'first': first, 'maxlag': ml,
                    'as_metricspace': rng.random() < 0.5}
            change_metric = (not case['as_metricspace']) and rng.random() < 0.5
            if change_metric and rng.random() < 0.5:
                case['first'] = first = None          # maxlag left unset: the edges follow the largest distance of the new metric
            ctx.count('setter_maxlag', repr(ml))
            try:
                src = MetricSpace(c.copy(), 'euclidean') if case['as_metricspace'] else c
                V = Variogram(src, v, bin_func=method, n_lags=n, maxlag=first if not (case['as_metricspace'] and isinstance(first, float) and first >= 1) else None, fit_method=None)
                _ = V.bins, V.n_lags
                metric2 = None
                if change_metric:
                    # the edges must follow a change of the metric as well
                    metric2 = rng.choice(['cityblock', 'chebyshev'])
                    V.dist_function = metric2
                    case['metric2'] = metric2
                    if rng.random() < 0.6:
                        ml = V._maxlag_passed_value if hasattr(V, '_maxlag_passed_value') else first
                        case['maxlag'] = ml
                    else:
                        V.maxlag = ml
                else:
                    V.maxlag = ml
                edges = np.asarray(V.bins, dtype=float)
                nl, Mres, D = V.n_lags, V.maxlag, np.asarray(V.distance, dtype=float)
            except Exception as e:
                ctx.count('setter_rejected', type(e).__name__)
                ctx.case_done(case, False)
                continue
            d_true = pdist(c, case.get('metric2') or 'euclidean')
            mres = model('resolve_maxlag', wire_form(ml), D.tolist())
            if (mres is None) != (Mres is None) or (mres is not None and not gen.close(float(mres), float(Mres), 1e-11)):
                ctx.problem('correspondence', 'maxlag assigned in place resolves differently from Binning.resolve_maxlag', case,
                            {'assigned': ml, 'model': None if mres is None else float(mres), 'impl': Mres})
            M_impl = float(model('clip_maxlag', None if Mres is None else float(Mres), D.tolist()))
            M_eff = effective_maxlag(ml, d_true)
            nt = check_edges(ctx, model, case, method, n, edges, int(nl), D.tolist(), M_impl, d_true, M_eff, path='dense')
            ctx.case_done(case, bool(nt))
        # ---- stream 4: the directional class (binning of the selected pairs only; unselected pairs are NaN in the distance vector)
        if cases is None:
            import dir_common as dc
            from skgstat import DirectionalVariogram
            for t in range(40 if not ctx.thorough() else 400):
                dcase = dc.gen_case(rng, nmax=22)
                dcase['bin_func'] = rng.choice(['even', 'uniform', 'uniform', 'sturges', 'sqrt', 'kmeans', 'ward'])
                dcase['maxlag'] = rng.choice([None, None, 0.6, 'median', 'mean'])
                if t < 7:
                    # always part of a run: every method with the maximum lag left unset (the distance vector then holds NaN for unselected pairs)
                    dcase['bin_func'], dcase['maxlag'] = ['uniform', 'even', 'sturges', 'sqrt', 'kmeans', 'ward', 'uniform'][t], None
                    dcase['tolerance'], dcase['model'] = [45, 90, 22.5, 120, 60, 90, 30][t], 'compass'
                dcase['n_lags'] = rng.randint(2, 6)
                case = dict(dcase, directional=True)
                ctx.count('directional_method', dcase['bin_func'])
                try:
                    DV = dc.build(dcase)
                    mask = np.asarray(DV._direction_mask(), bool)
                    dall = np.asarray(DV.distance, float)
                    edges = np.asarray(DV.bins, float)
                    nl = DV.n_lags
                    Mres = DV.maxlag
                except Exception as e:
                    # no selected pair at all is legitimate; anything else is a failure to produce edges
                    try:
                        ok_empty = int(np.asarray(dc.geometry(dcase, bandwidth=dc.resolved_bandwidth(dcase))[0]).sum()) < 2
                    except Exception:
                        ok_empty = True
                    if ok_empty or 'clusters' in str(e) or 'n_samples' in str(e) or (dcase['bin_func'] in ('kmeans', 'ward') and any(w_ in str(e) for w_ in ('converge', 'sample', 'cluster'))):
                        ctx.count('directional_rejected', type(e).__name__)
                    else:
                        ctx.problem('oracle', 'directional variogram with %s binning raises %s although pairs are selected: %s' % (dcase['bin_func'], type(e).__name__, str(e)[:80]), case, None,
                                    {'what': 'directional-edges-raise', 'method': dcase['bin_func']})
                    ctx.case_done(case, False)
                    continue
                sel = dall[mask]
                inside = sorted(set(float(x) for x in sel if Mres is None or x <= Mres))
                if len(inside) < 2:
                    ctx.count('guard', 'not-met-directional')
                    ctx.case_done(case, False)
                    continue
                M_eff = min(float(Mres), float(np.max(sel))) if Mres is not None else float(np.max(sel))      # the maximum lag, clipped to the largest selected distance
                tol = 1e-11 * max(1.0, abs(M_eff))
                sig = {'what': 'edges', 'method': dcase['bin_func'], 'path': 'directional'}
                if not np.all(np.isfinite(edges)):
                    ctx.problem('oracle', 'directional variogram: lag edges are not finite although %d distinct selected distances lie within the maximum lag' % len(inside), case, {'edges': edges.tolist()}, sig)
                elif np.any(np.diff(edges) < -tol):
                    ctx.problem('oracle', 'directional variogram: lag edges decrease', case, {'edges': edges.tolist()}, sig)
                elif len(edges) != int(nl):
                    ctx.problem('oracle', 'directional variogram: n_lags reports %r but there are %d lag edges' % (nl, len(edges)), case, {'edges': edges.tolist()}, sig)
                elif edges.max() > M_eff + tol:
                    ctx.problem('oracle', 'directional variogram: a lag edge (%r) exceeds the effective maximum lag %r of the selected pairs' % (float(edges.max()), M_eff), case, {'edges': edges.tolist()}, sig)
                elif dcase['bin_func'] == 'even' and (len(edges) != dcase['n_lags'] or not lists_close([M_eff / dcase['n_lags'] * (i + 1) for i in range(dcase['n_lags'])], edges.tolist(), 1e-10)):
                    ctx.problem('oracle', "directional variogram: 'even' edges are not n equal-width classes ending at the effective maximum lag %r" % M_eff, case, {'edges': edges.tolist()}, sig)
                elif dcase['bin_func'] == 'uniform':
                    dd = np.array([x for x in sel if x <= M_eff])
                    want = [float(np.percentile(dd, 100.0 * (i + 1) / dcase['n_lags'])) for i in range(dcase['n_lags'])]
                    if not lists_close(want, edges.tolist(), 1e-10):
                        ctx.problem('oracle', "directional variogram: 'uniform' edges are not the i/n quantiles of the selected distances within the maximum lag", case,
                                    {'edges': edges.tolist()[:10], 'quantiles': want[:10]}, sig)
                elif dcase['bin_func'] == 'ward':
                    try:
                        from sklearn.cluster import AgglomerativeClustering
                        dref = np.array([x for x in sel if x <= M_eff])
                        lab = AgglomerativeClustering(linkage='ward', n_clusters=dcase['n_lags']).fit(dref.reshape(-1, 1)).labels_
                        cen = np.sort([dref[lab == i_].mean() for i_ in np.unique(lab)])
                        eref = [(lo_ + up_) / 2 for lo_, up_ in zip([0] + list(cen)[:-1], cen)]
                        if len(eref) != len(edges) or not lists_close(eref, edges.tolist(), 1e-10):
                            ctx.problem('oracle', "directional variogram: 'ward' edges are not built from the selected pairs within the maximum lag", case,
                                        {'edges': edges.tolist(), 'reference': eref}, sig)
                    except Exception as e:
                        ctx.count('directional_ward_reference_rejected', type(e).__name__)
                ctx.tests['directional_edge_checks'] = ctx.tests.get('directional_edge_checks', 0) + 1
                ctx.case_done(case, len(set(edges.tolist())) >= 2)
        vc.run_golden(ctx, coq, model)
        if ctx.thorough():
            rc, out, dt = coq.coqchk()
            ctx.extra['coqchk'] = {'rc': rc, 'seconds': round(dt, 1), 'tail': out[-1500:]}
    finally:
        model.close()
    ctx.extra['rule'] = ('stream 1: Variogram(...) on generated point sets x 11 binning methods (custom edges incl.) x 5 maxlag forms x n_lags 1..12; '
                         'stream 2: binning functions called directly on distance multisets with heavy ties / tiny samples; '
                         'non-trivial = guard of the property met (>= 2 distinct distances within the effective maxlag) and >= 2 distinct edges')
    return core.finish(ctx, coq, vc.TRUSTED_STRUCT + ['np.histogram_bin_edges bin count, KMeans / AgglomerativeClustering centres: opaque, their contract (sorted centres inside the data range) checked per case'],
                       vc.ASSUME_STRUCT)
