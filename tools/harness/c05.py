"""C05 - automatic fits stay in bounds, are locally optimal and ignore empty lag classes."""
import random
import numpy as np
from scipy.optimize import least_squares
import core, gen, vario_common as vc, fit_common as fc
from skgstat import Variogram, models

SIGMAS = [None, None, 'linear', 'exp', 'sqrt', 'sq', 'array']


def sigma_full(V, spec, nb):
    if spec is None:
        return None
    b = np.asarray(V.bins, float)
    if spec == 'linear':
        return b / b.max()
    if spec == 'exp':
        return 1.0 / np.exp(1.0 / (b / b.max()))
    if spec == 'sqrt':
        return np.sqrt(b / b.max())
    if spec == 'sq':
        return (b / b.max()) ** 2
    return np.asarray(spec, float)


def objective(V, p, x, y, sig, use_nugget):
    args = list(p) if use_nugget else list(p) + [0.0]
    m = np.asarray(V._model(np.asarray(x, float), *args), float)
    r = (m - y) / (sig if sig is not None else 1.0)
    return float(np.sum(r ** 2))


def run(ctx, replay=None):
    coq = core.Coq('C05')
    coq.build()
    model = core.Model()
    rng = ctx.rng
    try:
        n = 60 if not ctx.thorough() else 600
        cases = [replay['case']] if replay and replay.get('case') else vc.corpus_cases('C05')
        while len(cases) < n:
            is_sum = rng.random() < 0.2
            cases.append({'seed': rng.randrange(10 ** 6), 'gap': rng.random() < 0.5, 'model': rng.choice(fc.SUMS) if is_sum else rng.choice(fc.SINGLE),
                          'use_nugget': rng.choice([False, True]), 'method': rng.choice(['trf', 'trf', 'trf', 'lm']), 'sigma': rng.choice(SIGMAS),
                          'n_lags': rng.randint(6, 14), 'maxlag': rng.choice([None, None, 'median', 0.8]),
                          'estimator': rng.choice(['matheron', 'matheron', 'cressie', 'dowd', 'genton']), 'remote': rng.random() < 0.3})
            cases[-1]['on_the_fly'] = rng.random() < 0.25
            cases[-1]['bin_func'] = rng.choice(['even', 'even', 'uniform', 'kmeans', 'sturges'])
            if cases[-1]['estimator'] == 'genton':
                cases[-1]['remote'] = rng.random() < 0.8
        if not replay:
            # always part of a run: every named weighting with a maximum lag that ends below the largest distance
            k0 = len(vc.corpus_cases('C05'))
            for i_, (sg_, ml_) in enumerate([('exp', 'median'), ('linear', 0.8), ('sqrt', 'median'), ('sq', 0.8), ('exp', 0.8), ('array', 'median')]):
                if k0 + i_ < len(cases):
                    cases[k0 + i_].update(sigma=sg_, maxlag=ml_, method='trf', model=['spherical', 'exponential'][i_ % 2], estimator='matheron', remote=False, gap=False, on_the_fly=False)
        for case in cases:
            c, v = fc.field(random.Random(case['seed']), with_gap=case['gap'], n=(24 if case.get('estimator') == 'genton' else None))
            if case.get('remote'):
                # one remote station: the outermost lag classes hold a single pair each (Genton returns NaN there)
                c = np.vstack((c, [[c[:, 0].max() * 3.0, c[:, 1].max() * 3.0]]))
                v = np.append(v, v.mean())
            if case.get('estimator') == 'genton' and case.get('remote') and not case.get('searched'):
                # look for a number of lag classes under which one class holds exactly ONE pair (Genton: NaN although bin_count > 0)
                case['searched'] = True
                for nl in [case['n_lags']] + list(range(6, 19)):
                    try:
                        if (Variogram(c, v, n_lags=nl, maxlag=case['maxlag'], fit_method=None).bin_count == 1).any():
                            case['n_lags'] = nl
                            break
                    except Exception:
                        pass
            mname = case['model']
            ctx.count('estimator', case.get('estimator', 'matheron'))
            ctx.count('settings_passed_to_fit', bool(case.get('on_the_fly')))
            ctx.count('model', mname)
            ctx.count('method', case['method'])
            ctx.count('sigma', str(case['sigma']))
            spec = case['sigma']
            if spec == 'array':
                spec = [0.5 + 0.25 * (i % 4) for i in range(case['n_lags'])]
            kw = dict(model=mname, n_lags=case['n_lags'], use_nugget=case['use_nugget'], fit_sigma=spec, maxlag=case['maxlag'], fit_method=case['method'], estimator=case.get('estimator', 'matheron'),
                      bin_func=case.get('bin_func', 'even'))
            if spec is not None and isinstance(spec, list) and case.get('bin_func', 'even') == 'sturges':
                kw['bin_func'] = 'even'          # an explicit weight array needs a known number of classes
            ctx.count('bin_func', kw['bin_func'])
            with fc.FitRecorder() as rec:
                try:
                    if case.get('on_the_fly'):
                        # method and weights handed to fit() itself, on an instance built with other settings
                        V = Variogram(c, v, **dict(kw, fit_sigma=None, fit_method=None))
                        rec.calls.clear()
                        V.fit(method=case['method'], sigma=spec)
                    else:
                        V = Variogram(c, v, **kw)
                    cof = np.asarray(V.cof, float)
                except Exception as e:
                    exp0 = None
                    try:
                        V0 = Variogram(c, v, **dict(kw, fit_method=None))
                        exp0 = np.asarray(V0.experimental, float)
                    except Exception:
                        pass
                    has_nan = exp0 is not None and bool(np.any(np.isnan(exp0)))
                    shape_model = any(m_ in mname for m_ in ('stable', 'matern'))
                    if isinstance(e, TypeError) and ('must not exceed the number of data points' in str(e) or 'must not exceed func output vector' in str(e)):
                        ctx.count('underdetermined')          # fewer non-empty lag classes than parameters
                        ctx.case_done(case, False)
                        continue
                    if case['method'] == 'lm':
                        ctx.count('lm_did_not_converge', type(e).__name__)     # the property covers lm only where it converges
                        ctx.case_done(case, False)
                        continue
                    if isinstance(e, ZeroDivisionError) and shape_model:
                        sig = {'what': 'shape-zero-division', 'model_has': 'stable' if 'stable' in mname else 'matern'}
                    elif type(e).__name__ == 'RuntimeError' and 'Optimal parameters not found' in str(e):
                        ctx.count('no_convergence', case['method'])
                        ctx.case_done(case, False)
                        continue
                    else:
                        sig = {'what': 'fit-raises', 'error': type(e).__name__, 'empty_classes': has_nan}
                    ctx.problem('oracle', 'the fit raises %s: %s (empty lag classes: %s)' % (type(e).__name__, str(e)[:80], has_nan), case, None, sig)
                    ctx.case_done(case, False)
                    continue
            exp = np.asarray(V.experimental, float)
            bins = np.asarray(V.bins, float)
            ctx.count('empty_classes', int(np.sum(np.isnan(exp))) if np.sum(np.isnan(exp)) < 3 else '3+')
            ctx.count('nan_class_with_pairs', bool(np.any(np.isnan(exp) & (np.asarray(V.bin_count) > 0))))
            if not rec.calls:
                ctx.problem('correspondence', 'no curve_fit call recorded', case, None)
                continue
            call = rec.calls[-1]
            ctx.disagreements_checked += 1
            names = mname.split('+')
            sfull = sigma_full(V, spec, len(bins))
            mi = model('fit_inputs', bins.tolist(), [None if e != e else float(e) for e in exp.tolist()], None if sfull is None else [float(s) for s in sfull],
                       golden=(len(bins) <= 8 and len(model.golden) < 20))
            mx, my, ms = [float(t) for t in mi[0]], [float(t) for t in mi[1]], (None if mi[2] is None else [float(t) for t in mi[2]])
            cs = call['kw'].get('sigma')
            if call['x'].tolist() != mx or call['y'].tolist() != my:
                ctx.problem('correspondence', 'lags / semivariances handed to curve_fit differ from Fit.fit_x / fit_y (NaN classes dropped, pairs aligned)', case, {'impl_x': call['x'].tolist(), 'model_x': mx})
            elif (cs is None) != (ms is None) or (ms is not None and not all(gen.close(a, b, 1e-12) for a, b in zip(np.asarray(cs, float).tolist(), ms))) or (ms is not None and len(cs) != len(ms)):
                ctx.problem('correspondence', 'weights handed to curve_fit differ from Fit.fit_sigma (same NaN filter as the lags)', case, {'impl': None if cs is None else np.asarray(cs).tolist(), 'model': ms})
            kinds = [2.0 if nm == 'stable' else (20.0 if nm == 'matern' else None) for nm in names]
            if case['method'] == 'trf':
                mb = [float(t) for t in model('bounds_sum', kinds, float(np.nanmax(bins)), float(np.nanmax(exp)), bool(case['use_nugget']))]
                lo, up = call['kw'].get('bounds', (None, None))
                upl = np.asarray(up, float).tolist()
                if not all(gen.close(a, b, 1e-12) for a, b in zip(upl, mb)) or len(upl) != len(mb) or np.any(np.asarray(lo, float) != 0):
                    ctx.problem('correspondence', 'fit bounds differ from Fit.bounds_sum (documented box)', case, {'impl_upper': upl, 'model': mb})
                if not np.array_equal(np.asarray(call['kw'].get('p0'), float), np.asarray(up, float)):
                    ctx.problem('correspondence', 'initial guess is not the upper bound vector', case, None)
                # ---- oracle: inside the documented box
                tolb = 1e-9
                if np.any(cof < -tolb) or np.any(cof > np.asarray(mb) * (1 + 1e-9) + tolb):
                    ctx.problem('oracle', 'trf parameters leave the documented box', case, {'cof': cof.tolist(), 'upper': mb}, {'what': 'out-of-bounds'})
            # ---- oracle: objective no worse than at the initial guess; re-optimisation cannot lower it noticeably (TEST)
            x, y = np.asarray(mx), np.asarray(my)
            sg = None if ms is None else np.asarray(ms)
            try:
                f_cof = objective(V, cof, x, y, sg, case['use_nugget'])
                if case['method'] == 'trf':
                    p0 = np.asarray(call['kw']['p0'], float)
                    f_p0 = objective(V, p0, x, y, sg, case['use_nugget'])
                    if np.isfinite(f_p0) and f_cof > f_p0 * (1 + 1e-6) + 1e-12:
                        ctx.problem('oracle', 'objective at the fitted parameters (%r) is worse than at the documented initial guess (%r)' % (f_cof, f_p0), case, None, {'what': 'worse-than-p0'})

                def resid(p):
                    args = list(p) if case['use_nugget'] else list(p) + [0.0]
                    return (np.asarray(V._model(x, *args), float) - y) / (sg if sg is not None else 1.0)
                if case['method'] == 'trf':
                    lo_ = np.zeros(len(cof))
                    up_ = np.asarray(mb, float)
                    st = np.minimum(np.maximum(cof, lo_ + 1e-12), up_ - 1e-12 * np.maximum(1, up_))
                    ro = least_squares(resid, st, bounds=(lo_, up_), xtol=1e-12, ftol=1e-12, gtol=1e-12, max_nfev=400)
                else:
                    ro = least_squares(resid, cof, method='lm', xtol=1e-12, ftol=1e-12, gtol=1e-12, max_nfev=400)
                f_ro = float(np.sum(ro.fun ** 2))
                ctx.tests['reoptimisations'] = ctx.tests.get('reoptimisations', 0) + 1
                # "noticeably": 2 % of the objective, and more than 1e-9 of the (weighted) size of the data it measures
                scale_ = float(np.sum((y / (sg if sg is not None else 1.0)) ** 2))
                if case['method'] == 'lm' and (cof[0] <= 0 or cof[1] <= 0):
                    ctx.count('lm_unphysical_result_skipped')          # a negative range / sill: the unbounded method did not converge to a variogram
                elif np.isfinite(f_ro) and f_ro < f_cof * (1 - 0.02) - 1e-9 * max(1.0, f_cof, scale_):
                    ctx.problem('oracle', 're-optimising from the reported parameters lowers the sigma-weighted objective from %r to %r' % (f_cof, f_ro), case,
                                {'cof': cof.tolist(), 'reoptimised': ro.x.tolist()},
                                {'what': 'not-a-local-minimum', 'class': 'weighted-multi-parameter' if (len(cof) >= 3 and sg is not None) else 'exp-weighted' if case['sigma'] == 'exp'
                                 else 'lm-shape-model' if (case['method'] == 'lm' and any(m_ in mname for m_ in ('matern', 'stable')) and len(cof) >= 3) else 'other'})
            except (ZeroDivisionError, FloatingPointError, ValueError) as e:
                ctx.count('objective_rejected', type(e).__name__)
            # ---- oracle: an (always empty) zero-width lag class neither breaks nor influences the fit
            if rng.random() < 0.5 and '+' not in mname:
                try:
                    e1 = bins.tolist()
                    j = rng.randrange(len(e1))
                    e2 = e1[:j + 1] + [e1[j]] + e1[j + 1:]
                    sp1, sp2 = spec, spec
                    if isinstance(spec, list):
                        sp1 = [0.5 + 0.25 * (i % 4) for i in range(len(e1))]
                        sp2 = sp1[:j + 1] + [9.0] + sp1[j + 1:]
                    if spec in ('linear', 'exp', 'sqrt', 'sq') or spec is None or isinstance(spec, list):
                        A = Variogram(c, v, **dict(kw, bin_func=np.array(e1), fit_sigma=sp1, maxlag=None))
                        B = Variogram(c, v, **dict(kw, bin_func=np.array(e2), fit_sigma=sp2, maxlag=None))
                        pa, pb = np.asarray(A.cof, float), np.asarray(B.cof, float)
                        if len(pa) != len(pb) or not all(gen.close(a, b, 1e-6, 1e-9) for a, b in zip(pa, pb)):
                            ctx.problem('oracle', 'an empty (zero-width) lag class changes the fitted parameters', case, {'without': pa.tolist(), 'with_empty_class': pb.tolist(), 'inserted_after': j}, {'what': 'empty-class-influences'})
                        ctx.tests['empty_class_insertions'] = ctx.tests.get('empty_class_insertions', 0) + 1
                except Exception as e:
                    if isinstance(e, ZeroDivisionError) or 'Optimal parameters' in str(e):
                        ctx.count('insertion_rejected', type(e).__name__)
                    else:
                        ctx.problem('oracle', 'an empty (zero-width) lag class breaks the fit: %s %s' % (type(e).__name__, str(e)[:80]), case, None, {'what': 'empty-class-breaks'})
            # ---- weights assigned on the fitted instance (property, no explicit fit() call): the parameters read afterwards are the
            # fit under THOSE weights, i.e. what a fresh instance with the same weights reports
            if rng.random() < 0.4 and case['method'] == 'trf':
                try:
                    form = rng.choice(['list', 'ndarray', 'string'])
                    wts = [0.5 + 0.25 * ((i * 7) % 5) for i in range(len(bins))]
                    new_sigma = wts if form == 'list' else np.array(wts) if form == 'ndarray' else rng.choice(['linear', 'sqrt', 'sq'])
                    L = Variogram(c, v, **dict(kw, fit_sigma=None))
                    _ = L.parameters
                    L.fit_sigma = new_sigma
                    pl = np.asarray(L.parameters, float)
                    F = Variogram(c, v, **dict(kw, fit_sigma=new_sigma))
                    pf = np.asarray(F.parameters, float)
                    if len(pl) != len(pf) or not all(gen.close(a, b, 1e-6, 1e-9) for a, b in zip(pl, pf)):
                        ctx.problem('oracle', 'after assigning fit_sigma (%s) on a fitted instance the reported parameters are not the fit under those weights' % form, dict(case, assigned_sigma=form),
                                    {'inplace': pl.tolist(), 'fresh': pf.tolist()}, {'what': 'sigma-assigned-in-place', 'form': form})
                    ctx.tests['sigma_assignments'] = ctx.tests.get('sigma_assignments', 0) + 1
                except Exception as e:
                    ctx.count('sigma_assignment_rejected', type(e).__name__)
            ctx.case_done(case, True)
        vc.run_golden(ctx, coq, model)
    finally:
        model.close()
    ctx.extra['rule'] = ('smooth random fields, half of them two separated clusters (empty lag classes) x 6 single models + 4 sums x use_nugget x trf/lm x fit_sigma in {None, linear, exp, sqrt, sq, explicit array} x n_lags x maxlag; '
                         'recorded curve_fit call against the model; re-optimisation with tolerances 1e-12; insertion of an always-empty class; non-trivial = a fit that was examined')
    return core.finish(ctx, coq, fc.TRUSTED, ['local optimality and "not worse than the initial guess" are tested by re-optimisation, not proved'])
