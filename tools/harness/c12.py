"""C12 - directional variograms use exactly the point pairs inside the search area."""
import math
import numpy as np
import core, gen, vario_common as vc, dir_common as dc
from dir_common import py2coq


def run(ctx, replay=None):
    coq = core.Coq('C12', extra_targets=['Properties/C12b.v'])
    coq.build()
    ctx.translations = coq.translated
    model = core.Model()
    rng = ctx.rng
    try:
        irs = py2coq.translate_all()
    except Exception as e:
        irs = None
        coq.broken.append({'kind': 'translation', 'file': 'tools/py2coq.py', 'lemma': 'translate_all', 'error': str(e)[:300]})
    try:
        n = 90 if not ctx.thorough() else 900
        cases = [replay['case']] if replay and replay.get('case') else vc.corpus_cases('C12') + [dc.gen_case(rng) for _ in range(n)]
        for case in cases:
            for k, v in case['tags'].items():
                ctx.count(k, v)
            ctx.count('model', case['model'])
            ctx.count('dist_func', case.get('dist_func', 'euclidean'))
            ctx.count('tolerance', case['tolerance'] if case['tolerance'] in (0, 45, 90, 180, 360) else 'other')
            ctx.count('|azimuth|>90', abs(case['azimuth']) > 90)
            try:
                DV = dc.build(case)
                mask = np.asarray(DV._direction_mask(), bool)
                ang = np.asarray(DV._angles, float)
                ed = np.asarray(DV._euclidean_dist, float)
                bw = dc.resolved_bandwidth(case)
                if not gen.close(bw, float(DV.bandwidth), 1e-12, 1e-12):
                    ctx.problem('oracle', 'the bandwidth in effect is not the bandwidth that was passed', case, {'passed': case['bandwidth'], 'resolved': bw, 'in_effect': float(DV.bandwidth)}, {'what': 'bandwidth-in-effect'})
                edges = np.asarray(DV.bins, float)
                G = np.asarray(DV.lag_groups())
                D = np.asarray(DV.distance, float)
                X = np.asarray(DV.pairwise_diffs, float)
                exp = np.asarray(DV.experimental, float)
                counts = np.asarray(DV.bin_count)
            except Exception as e:
                ctx.count('rejected', type(e).__name__ + ':' + str(e)[:40])
                ctx.case_done(case, False)
                continue
            c = np.array(case['coords'], float)
            i, j = np.triu_indices(len(c), 1)
            sel, near, deg = dc.geometry(case, bandwidth=bw)
            if not np.all(np.isfinite(edges)):
                ctx.count('degenerate_no_pair_selected')
                edges = np.array([])
            elif case['bin_func'] == 'ward' and int(np.sum(mask)) > case['n_lags']:
                # the lag edges of the directional variogram are built from the SELECTED pairs (within the maximum lag) only
                try:
                    from sklearn.cluster import AgglomerativeClustering
                    selD = D[mask]
                    mlv = min(float(DV.maxlag), float(selD.max())) if DV.maxlag is not None else float(selD.max())
                    dref = selD[selD <= mlv]
                    lab = AgglomerativeClustering(linkage='ward', n_clusters=case['n_lags']).fit(dref.reshape(-1, 1)).labels_
                    cen = np.sort([dref[lab == i_].mean() for i_ in np.unique(lab)])
                    eref = np.array([(lo_ + up_) / 2 for lo_, up_ in zip([0] + list(cen)[:-1], cen)])
                    if len(eref) != len(edges) or not all(gen.close(a_, b_, 1e-10, 1e-12) for a_, b_ in zip(eref, edges)):
                        ctx.problem('oracle', "the 'ward' lag edges are not built from the selected pairs within the maximum lag", case, {'edges': edges.tolist(), 'reference': eref.tolist()}, {'what': 'directional-ward-edges'})
                except Exception as e:
                    ctx.count('ward_reference_rejected', type(e).__name__)
            ctx.disagreements_checked += 1
            # ---- (T) validation: the translated definitions evaluated on the implementation's own angles
            if irs is not None:
                key = 'directional.' + case['model']
                bad = 0
                for k in range(len(mask)):
                    if deg[k]:
                        continue
                    env = {'angles': float(ang[k]), 'dists': float(ed[k]), 'azimuth': float(case['azimuth']), 'tolerance': float(case['tolerance']), 'bandwidth': bw, 'PI': math.pi}
                    got = bool(py2coq.ir_eval(irs[key]['ir'], env))
                    pa = py2coq.ir_eval(irs['directional.pair_angle']['ir'], {'scalar': float(c[i[k], 0] - c[j[k], 0]), 'ydiff': float(c[i[k], 1] - c[j[k], 1]), 'euclidean_dist': float(ed[k]), 'PI': math.pi})
                    if got != bool(mask[k]) and not near[k]:
                        ctx.problem('translation', 'translated %s evaluates differently from the implementation mask' % case['model'], case, {'pair': [int(i[k]), int(j[k])], 'ir': got, 'impl': bool(mask[k])}, {'what': 'ir-mask'})
                        bad = 1
                        break
                    if not gen.close(pa, ang[k], 1e-12, 1e-12):
                        ctx.problem('translation', 'translated pair angle differs from the implementation angle', case, {'pair': [int(i[k]), int(j[k])], 'ir': pa, 'impl': float(ang[k])}, {'what': 'ir-angle'})
                        bad = 1
                        break
            # ---- oracle: the geometric statement of the property (boundary pairs and zero-length pairs excluded)
            consider = ~near & ~deg
            wrong = np.where((mask != sel) & consider)[0]
            if len(wrong):
                k = int(wrong[0])
                ctx.problem('oracle', 'pair (%d,%d) is %sselected although its line is %s the search area (azimuth %r, tolerance %r, %s)'
                            % (i[k], j[k], '' if mask[k] else 'not ', 'outside' if mask[k] else 'inside', case['azimuth'], case['tolerance'], case['model']),
                            case, {'pair': [int(i[k]), int(j[k])], 'p_i': c[i[k]].tolist(), 'p_j': c[j[k]].tolist(), 'bandwidth': bw}, {'what': 'mask-geometry'})
            # order independence: reverse the point list (every pair is then seen in the other order)
            try:
                DR = dc.build(dict(case, coords=c[::-1].tolist(), values=list(reversed(case['values']))), bandwidth=bw)
                mr = np.asarray(DR._direction_mask(), bool)
                nn = len(c)
                rmap = {}
                ir_, jr_ = np.triu_indices(nn, 1)
                for k2 in range(len(ir_)):
                    rmap[(nn - 1 - jr_[k2], nn - 1 - ir_[k2])] = k2
                for k in range(len(mask)):
                    if consider[k] and mask[k] != mr[rmap[(int(i[k]), int(j[k]))]]:
                        ctx.problem('oracle', 'the selection of a pair depends on the order of its two points', case, {'pair': [int(i[k]), int(j[k])]}, {'what': 'order-dependence'})
                        break
            except Exception as e:
                ctx.count('reverse_rejected', type(e).__name__)
            # ---- grouping: C01 model on the masked vector
            if len(edges) == 0:
                ctx.case_done(case, False)
                continue
            mg = model('masked_groups', edges.tolist(), D.tolist(), [bool(m) for m in mask.tolist()], golden=(len(D) <= 30 and len(model.golden) < 20))
            ig = [None if g < 0 else int(g) for g in G.tolist()]
            if mg != ig:
                ctx.problem('correspondence', 'directional lag groups differ from Groups.masked_groups', case, {'first_diff': next(k for k in range(len(ig)) if mg[k] != ig[k])})
            else:
                for b in range(len(edges)):
                    pos = [k for k in range(len(ig)) if ig[k] == b]
                    selx = X[pos] if pos else np.array([])
                    want = DV._estimator(selx) if len(selx) else float('nan')
                    if int(counts[b]) != len(pos) or not vc.same_float(want, exp[b]):
                        ctx.problem('correspondence', 'directional class content / count / semivariance differs from the masked model', case, {'class': b, 'model_n': len(pos), 'impl_n': int(counts[b])})
                        break
            # oracle for the last sentence: edges from the selected pairs only, estimator over selected pairs per class
            if not np.any(near & ~deg):
                dsel = D[mask]
                if len(set(dsel.tolist())) >= 2 and case['maxlag'] is None:
                    if case['bin_func'] == 'even':
                        want_e = np.linspace(0, dsel.max(), case['n_lags'] + 1)[1:]
                    elif case['bin_func'] == 'uniform':
                        want_e = np.array([np.percentile(dsel, 100.0 * (q + 1) / case['n_lags']) for q in range(case['n_lags'])])
                    else:
                        want_e = edges          # ward: compared with its own reference above
                    if len(want_e) != len(edges) or not all(gen.close(a, b, 1e-10) for a, b in zip(want_e, edges)):
                        ctx.problem('oracle', 'lag edges are not derived from the selected pairs only', case, {'edges': edges.tolist(), 'from_selected': want_e.tolist()}, {'what': 'edges-from-selected'})
                lo = [0.0] + edges.tolist()[:-1]
                for b in range(len(edges)):
                    inb = np.where(mask & (D >= lo[b]) & (D < edges[b]))[0]
                    xs = [abs(case['values'][i[k]] - case['values'][j[k]]) for k in inb]
                    want = vc.doc_estimator(case['estimator'], xs)
                    if not gen.close(want, exp[b], 1e-9, 1e-12):
                        ctx.problem('oracle', 'class %d: semivariance is not the estimator over the selected pairs of the class' % b, case, {'impl': float(exp[b]), 'brute': want, 'pairs': len(xs)}, {'what': 'class-estimator'})
                        break
            ctx.case_done(case, int(mask.sum()) >= 2 and int((~mask & ~deg).sum()) >= 1)
        # ---- in-place tolerance / azimuth / bandwidth / model changes keep the mask consistent
        for case in cases[: (30 if not ctx.thorough() else 300)]:
            try:
                DV = dc.build(case)
                _ = DV.experimental
                what = rng.choice(['tolerance', 'azimuth', 'bandwidth', 'model', 'dist_func', 'dist_func'])
                new = {'tolerance': rng.choice([20, 90, 150]), 'azimuth': rng.choice([0, 60, -100]), 'bandwidth': rng.choice(['q20', 'q60']), 'model': 'compass' if case['model'] == 'triangle' else 'triangle',
                       'dist_func': rng.choice([m_ for m_ in ('euclidean', 'cityblock', 'chebyshev') if m_ != case.get('dist_func', 'euclidean')])}[what]
                if what == 'model':
                    DV.set_directional_model(new)
                elif what == 'dist_func' and rng.random() < 0.5 and isinstance(case['bandwidth'], str):
                    # a numeric bandwidth assigned after a quantile one has to survive a later change of the metric
                    nb_ = float(np.round(float(DV.bandwidth) * 0.4 * 8) / 8.0 + 0.125)
                    DV.bandwidth = nb_
                    DV.set_dist_function(new)
                    if not gen.close(nb_, float(DV.bandwidth), 1e-12, 1e-12):
                        ctx.problem('oracle', 'a numeric bandwidth assigned in place is replaced when the metric is exchanged afterwards', dict(case, changed='bandwidth then dist_func', new=[nb_, new]),
                                    {'assigned': nb_, 'in_effect': float(DV.bandwidth)}, {'what': 'inplace-bandwidth-then-dist_func'})
                    case = dict(case, bandwidth=nb_)
                elif what == 'dist_func':
                    # the metric exchanged in place: a quantile bandwidth refers to the distances of the NEW metric
                    if rng.random() < 0.5:
                        DV.set_dist_function(new)
                    else:
                        DV.dist_function = new
                    want_bw = dc.resolved_bandwidth(dict(case, dist_func=new))
                    if not gen.close(want_bw, float(DV.bandwidth), 1e-12, 1e-12):
                        ctx.problem('oracle', 'after the metric was exchanged in place the bandwidth in effect is not the bandwidth setting resolved for the new distances', dict(case, changed=what, new=new),
                                    {'setting': case['bandwidth'], 'resolved_for_new_metric': want_bw, 'in_effect': float(DV.bandwidth)}, {'what': 'inplace-dist_func-bandwidth'})
                else:
                    setattr(DV, what, new)
                fresh = dc.build(dict(case, **{what: new}))
                if not np.array_equal(np.asarray(DV._direction_mask()), np.asarray(fresh._direction_mask())) or not np.array_equal(np.asarray(DV.lag_groups()), np.asarray(fresh.lag_groups())):
                    ctx.problem('oracle', 'after assigning %s in place the selected pairs differ from a fresh instance' % what, dict(case, changed=what, new=new), None, {'what': 'inplace-' + what})
                ctx.tests['inplace_runs'] = ctx.tests.get('inplace_runs', 0) + 1
            except Exception as e:
                ctx.count('inplace_rejected', type(e).__name__)
        vc.run_golden(ctx, coq, model)
    finally:
        model.close()
    ctx.extra['rule'] = ('2-D point sets n<=25 (lattice, dyadic, duplicates, clustered) x azimuth in [-180,180] x tolerance in [0,360] x bandwidth (number or quantile string) x compass/triangle x n_lags x estimator; '
                         'pairs within 1e-5 degrees / 1e-9 of the tolerance / bandwidth boundary and zero-length pairs excluded; non-trivial = at least 2 selected and 1 unselected pair')
    return core.finish(ctx, coq, dc.TRUSTED, ['the geometric theorems are over R for every pair vector of positive length; the tie to the code is the translator plus the per-pair evaluation'])
