"""Shared machinery for the kriging properties C07, C08, C09, C17."""
import math, warnings
import numpy as np
from scipy.spatial.distance import cdist, pdist, squareform
import core, gen

warnings.filterwarnings('ignore')
from skgstat import Variogram, OrdinaryKriging, MetricSpace

TRUSTED = [
    'Coq 8.16.1 kernel (coqc, full .vo builds; vm_compute for the in-Coq golden cases); no native_compute',
    'extraction: ExtrOcamlBasic only, no Extract Constant; OCaml 4.13.1 + tools/ocaml/driver.ml',
    'correspondence harness tools/harness (generators, recorder around the instance attribute _solve, tolerances 1e-9 / residual 1e-7)',
    'modelled, not verified: numpy.linalg.solve / inv, scipy.linalg.solve (residual-checked per call), cdist/pdist/cKDTree, floating-point rounding',
]
ASSUME = ['the algebraic theorems are over Q about any solution of the assembled system; the implementation solves it in floating point (residual checked)',
          'the variogram model enters as the values gamma(d) the implementation itself computed']

MODELS = ['spherical', 'exponential', 'gaussian', 'cubic', 'stable', 'matern']


def gen_setup(rng, nmax=40, allow_metric=True):
    dim = rng.choice([2, 2, 2, 3])
    kind = rng.choice(['lattice', 'dyadic', 'dyadic', 'clustered'])
    n = rng.randint(10, nmax)
    _, c = gen.point_set(rng, n=n, dim=dim, kind=kind)
    # kriging removes duplicated coordinates itself; keep the generator free of them
    _, idx = np.unique(c, axis=0, return_index=True)
    c = c[np.sort(idx)]
    n = len(c)
    v = np.array([rng.randint(-512, 512) / 32.0 for _ in range(n)])
    dup = 0
    if rng.random() < 0.25:
        # a record entered twice (same coordinate, the later one with another value): only the first instance may be used
        dup = rng.randint(1, 2)
        for _ in range(dup):
            j = rng.randrange(len(c))
            pos = rng.randint(j + 1, len(c))
            c = np.insert(c, pos, c[j], axis=0)
            v = np.insert(v, pos, v[j] + rng.choice([0.0, 5.0, -3.0]))
    model = rng.choice(MODELS)
    metric = rng.choice(['euclidean', 'euclidean', 'euclidean', 'cityblock', 'chebyshev', 'minkowski']) if allow_metric else 'euclidean'
    mkw = {'p': rng.choice([1.5, 3.0, 1.0])} if metric == 'minkowski' else {}
    if mkw and dup:
        # a metric with keyword arguments is only reachable through a MetricSpace, which is used as it is (no duplicate removal)
        _, idx = np.unique(c, axis=0, return_index=True)
        keep = np.sort(idx)
        c, v, dup = c[keep], v[keep], 0
    dmax = float(pdist(c, metric, **mkw).max())
    how = rng.choice(['manual', 'manual', 'fit'])
    nugget = rng.choice([0.0, 0.0, 0.5, 2.0])
    if how == 'manual':
        # a range that is an occurring distance half of the time (boundary of the neighbourhood)
        ud = sorted(set(float(x) for x in pdist(c, metric, **mkw)))
        if metric == 'euclidean':
            # "range equal to an occurring distance" only for exactly representable distances: the truncated (KD-tree) path has its
            # own arithmetic and may place an irrational distance one ulp beyond the same float (rounding boundary, as in C11)
            from fractions import Fraction
            exact_sq = {gen.exact_dist(c[a_], c[b_], 'euclidean') for a_ in range(len(c)) for b_ in range(a_ + 1, len(c))}
            ud = [x for x in ud if Fraction(x) ** 2 in exact_sq] or ud[:0]
        rngv = rng.choice(ud[len(ud) // 4: 3 * len(ud) // 4 + 1]) if (rng.random() < 0.5 and ud) else round(rng.uniform(0.25, 0.8) * dmax * 4) / 4.0
        vk = dict(fit_method='manual', fit_range=float(rngv), fit_sill=float(rng.choice([1.0, 4.0, 10.0])))
        if nugget:
            vk['fit_nugget'] = nugget
        if model in ('stable', 'matern'):
            vk['fit_shape'] = rng.choice([0.5, 1.0, 1.5]) if model == 'stable' else rng.choice([0.5, 1.5, 3.0])
    else:
        vk = dict(use_nugget=bool(nugget))
    minp = rng.choice([1, 2, 3, 5])
    maxp = rng.choice([minp, minp + 1, 6, 8, 15])
    nt = rng.randint(6, 14)
    lo, hi = c.min(axis=0), c.max(axis=0)
    targets = []
    for t in range(nt):
        k = rng.choice(['inside', 'inside', 'inside', 'outside', 'far', 'at_obs', 'lattice'])
        if k == 'inside':
            p = [rng.randint(int(lo[d] * 8), int(hi[d] * 8) + 1) / 8.0 for d in range(dim)]
        elif k == 'outside':
            p = [float(hi[d]) + rng.randint(1, 16) / 8.0 for d in range(dim)]
        elif k == 'far':
            p = [float(hi[d]) + 10.0 * dmax for d in range(dim)]
        elif k == 'at_obs':
            p = c[rng.randrange(n)].tolist()
        else:
            p = [float(rng.randint(int(lo[d]), int(hi[d]) + 1)) for d in range(dim)]
        targets.append(p)
    return {'coords': c.tolist(), 'values': v.tolist(), 'model': model, 'metric': metric, 'mkw': mkw, 'coords_dtype': (rng.choice([None, None, 'int64', 'uint16']) if (not mkw and np.all(c == np.round(c)) and c.min() >= 0 and c.max() < 30000) else None), 'ok_coords_as': rng.choice(['variogram', 'metricspace']) if mkw else 'variogram', 'vkw': vk, 'min_points': minp, 'max_points': maxp,
            'targets': targets, 'solver': rng.choice(['inv', 'numpy', 'scipy']), 'sparse': metric == 'euclidean' and rng.random() < (0.7 if model in ('spherical', 'cubic') else 0.3),
            'tags': {'points': kind, 'dim': dim, 'n': n, 'model': model, 'how': how, 'nugget': nugget, 'duplicates': dup}}


def make_variogram(setup, values=None):
    c = np.array(setup['coords'], float)
    v = np.array(setup['values'] if values is None else values, float)
    if setup.get('mkw'):
        c = MetricSpace(c, setup['metric'], dist_metric_kwargs=dict(setup['mkw']))
    if setup.get('values_dtype') and values is None and np.all(v == np.round(v)):
        v = v.astype(setup['values_dtype'])          # integer-typed observations
    return Variogram(c, v, model=setup['model'], dist_func=setup['metric'], n_lags=8, **setup['vkw'])


def target_space(setup, T, max_dist=None):
    T = T if (isinstance(T, np.ndarray) and T.dtype == float) else np.array(T, float)          # an ndarray is handed over as it is: the space has to copy it itself
    return MetricSpace(T, setup['metric'], max_dist, dist_metric_kwargs=dict(setup.get('mkw') or {}))


def make_ok(setup, V=None, **over):
    V = V or make_variogram(setup)
    kw = dict(min_points=setup['min_points'], max_points=setup['max_points'], mode='exact', solver=setup['solver'], sparse=setup['sparse'])
    kw.update(over)
    if setup.get('coords_dtype') and not setup.get('mkw') and 'coordinates' not in kw:
        # observation coordinates handed over as an integer-typed array (raster indices)
        kw['coordinates'] = np.array(setup['coords'], float).astype(setup['coords_dtype'])
        kw.setdefault('values', np.asarray(V.values, float).copy() if isinstance(V, Variogram) else np.array(setup['values'], float))
    if setup.get('mkw') and 'coordinates' not in kw and setup.get('ok_coords_as') == 'metricspace':
        # the keyword arguments of the metric travel with the MetricSpace only
        kw['coordinates'] = MetricSpace(np.array(setup['coords'], float), setup['metric'], dist_metric_kwargs=dict(setup['mkw']))
        kw.setdefault('values', np.asarray(V.values, float).copy() if isinstance(V, Variogram) else np.array(setup['values'], float))
        kw['sparse'] = False
    return OrdinaryKriging(V, **kw), V


class Recorder:
    def __init__(self, ok):
        self.calls = []
        self.inner = ok._solve
        ok._solve = self

    def __call__(self, a, b):
        try:
            lam = self.inner(a, b)
        except Exception as e:
            self.calls.append((np.array(a), np.array(b), None, e))
            raise
        self.calls.append((np.array(a), np.array(b), np.array(lam), None))
        return lam


def run_transform(ok, targets):
    t = np.array(targets, float)
    return ok.transform(*[t[:, d] for d in range(t.shape[1])])


def brute_force(V, setup, target, coords=None, values=None):
    """The property statement: solve the OK system for the <= max_points nearest observations within the
    effective range.  Returns (Z, sigma2, status) with status in ok / nan / tie / illcond."""
    c = np.array(setup['coords'] if coords is None else coords, float)
    v = np.array(setup['values'] if values is None else values, float)
    rng_ = V.describe()['effective_range']
    gamma = V.fitted_model
    mkw = setup.get('mkw') or {}
    d = cdist(np.array([target], float), c, setup['metric'], **mkw)[0]
    W = np.where(d <= rng_)[0]
    if setup.get('sparse') and setup['metric'] == 'euclidean':
        # a neighbour exactly at the range whose distance is irrational: the KD-tree of the truncated path has its own arithmetic
        # and may place it one ulp beyond the same float (a rounding-boundary case, as in C11)
        import math
        from fractions import Fraction
        for j_ in np.where(np.abs(d - rng_) <= 1e-12 * max(1.0, rng_))[0]:
            ex_ = gen.exact_dist(np.array(target, float), c[j_], 'euclidean')
            rn_, rd_ = math.isqrt(ex_.numerator), math.isqrt(ex_.denominator)
            if not (rn_ * rn_ == ex_.numerator and rd_ * rd_ == ex_.denominator):
                return None, None, 'tie'
    if len(W) < setup['min_points']:
        return float('nan'), float('nan'), 'nan'
    N = setup['max_points']
    if len(W) > N:
        order = W[np.argsort(d[W], kind='stable')]
        if d[order[N - 1]] == d[order[N]]:
            return None, None, 'tie'
        W = order[:N]
    n = len(W)
    D = squareform(pdist(c[W], setup['metric'], **mkw)) if n > 1 else np.zeros((1, 1))
    G = np.array(gamma(D.flatten())).reshape(n, n) if n > 0 else np.zeros((0, 0))
    np.fill_diagonal(G, 0.0)
    A = np.ones((n + 1, n + 1))
    A[:n, :n] = G
    A[n, n] = 0.0
    g0 = np.array(gamma(d[W]))
    b = np.concatenate((g0, [1.0]))
    try:
        # the explicit inverse (solver='inv') loses about cond^2 * eps, the LU solvers cond * eps
        # conditioning is judged on the equilibrated system (semivariances divided by their largest value): the unit of the
        # observations must not decide whether a target is examined
        sc_ = float(np.max(np.abs(G))) if n > 0 and np.max(np.abs(G)) > 0 else 1.0
        As = A.copy()
        As[:n, :n] = G / sc_
        if np.linalg.cond(As) > (1e7 if setup.get('solver') == 'inv' else 1e9):
            return None, None, 'illcond'
        lam = np.linalg.solve(As, np.concatenate((g0 / sc_, [1.0])))
        lam[n] *= sc_
    except Exception:
        return None, None, 'illcond'
    return float(lam[:n].dot(v[W])), float(g0.dot(lam[:n]) + lam[n]), 'ok'


def dedup(coords, values):
    c = np.array(coords, float)
    v = np.array(values, float)
    seen, keep = set(), []
    for i, row in enumerate(c.tolist()):
        t = tuple(row)
        if t not in seen:
            seen.add(t)
            keep.append(i)
    return c[keep], v[keep]


def check_setup(ctx, model, setup, oracle=True, prop='C07'):
    """C07 correspondence (neighbours, assembly, solve residual, Z / sigma, bookkeeping) + brute-force oracle."""
    for k, v in setup['tags'].items():
        ctx.count(k, v)
    ctx.count('solver', setup['solver'])
    ctx.count('sparse', setup['sparse'])
    ctx.count('coords_dtype', str(setup.get('coords_dtype')))
    ctx.count('metric', setup['metric'] + (str(setup['mkw']) if setup.get('mkw') else ''))
    try:
        ok, V = make_ok(setup)
        rec = Recorder(ok)
        z = np.asarray(run_transform(ok, setup['targets']), float)
        sigma = np.asarray(ok.sigma, float)
    except Exception as e:
        ctx.count('rejected', type(e).__name__ + ':' + str(e)[:40])
        ctx.case_done(setup, False)
        return None
    ctx.disagreements_checked += 1
    pair = ok.transform_coords_pair
    dm = pair.dists
    sparse = not isinstance(dm, np.ndarray)
    calls = iter(rec.calls)
    results = []
    vals = np.asarray(ok.values, float)
    nontrivial = 0
    for i, p in enumerate(setup['targets']):
        # ---- neighbours
        impl_idx = [int(x) for x in pair.find_closest(i, ok.range, ok._maxp)]
        if sparse:
            row = dm.getrow(i)
            ridx = [int(k[1]) for k in row.todok().keys()]
            cands = [[j, float(row[0, j])] for j in ridx]
            midx = model('closest', cands, int(ok._maxp), golden=(len(cands) <= 8 and len(model.golden) < 40))
        else:
            rowv = [float(x) for x in np.asarray(dm[i, :]).ravel()]
            midx = model('find_closest_dense', rowv, float(ok.range), int(ok._maxp), golden=(len(rowv) <= 12 and len(model.golden) < 40))
        if midx != impl_idx:
            ctx.problem('correspondence', 'neighbour list differs from Kriging.closest', setup, {'target': i, 'model': midx, 'impl': impl_idx})
            results.append(None)
            continue
        if len(impl_idx) < ok._minp:
            results.append(1)
            if not (z[i] != z[i] and sigma[i] != sigma[i]):
                ctx.problem('oracle', 'target with fewer than min_points neighbours did not yield NaN for estimate and variance', setup,
                            {'target': i, 'neighbours': len(impl_idx), 'z': z[i], 'sigma': sigma[i]})
            continue
        try:
            a, b, lam, err = next(calls)
        except StopIteration:
            ctx.problem('correspondence', 'no solver call recorded for an estimable target', setup, {'target': i})
            break
        n = len(impl_idx)
        if err is not None:
            results.append(2)
            continue
        nontrivial += 1
        # ---- assembly: exact placement of the implementation's own semivariances
        idx = np.array(impl_idx)
        dist_mat = ok.coords.diagonal(idx)
        gcond = np.asarray(ok.gamma_model(dist_mat), float).tolist() if n > 1 else []
        if not (np.all(np.isfinite(gcond)) and np.all(np.isfinite(lam)) and np.all(np.isfinite(b))):
            ctx.count('nonfinite_system', '%s sparse=%s' % (setup['model'], setup['sparse']))
            results.append(None)
            if z[i] == z[i] and not np.all(np.isfinite(gcond)):
                pass
            continue
        ma = model('ok_matrix', gcond, n, golden=(n <= 4 and len(model.golden) < 40))
        ma = np.array([[float(x) for x in r] for r in ma])
        if ma.shape != a.shape or not np.array_equal(ma, a):
            ctx.problem('correspondence', 'kriging matrix differs from Kriging.ok_matrix (squareform of the semivariances, unit row/column, 0)', setup,
                        {'target': i, 'n': n, 'impl_last_row': a[-1].tolist(), 'impl_diag': np.diag(a).tolist()})
            results.append(None)
            continue
        d0 = cdist(np.array([p], float), np.asarray(ok.coords.coords)[idx], setup['metric'], **(setup.get('mkw') or {}))[0]
        g0 = np.asarray(ok.gamma_model(d0), float)
        if len(b) != n + 1 or b[-1] != 1 or not all(gen.close(x, y, 1e-9, 1e-12) for x, y in zip(b[:-1], g0)):
            ctx.problem('correspondence', 'right-hand side is not [gamma(d(target, neighbour_i))..., 1]', setup, {'target': i, 'impl_b': b.tolist(), 'expected': g0.tolist() + [1.0]})
            results.append(None)
            continue
        # ---- solution: residual of the recorded lambda, then Z and sigma recomputed exactly (Q) from lambda
        res = np.linalg.norm(a.dot(lam) - b)
        scale = max(1.0, np.linalg.norm(b), np.linalg.norm(a) * np.linalg.norm(lam))
        cond = np.linalg.cond(a)
        if cond > 1e10:
            ctx.count('illconditioned_skipped')
        elif res > 1e-7 * scale:
            ctx.problem('correspondence', 'solver result does not solve the recorded system', setup, {'target': i, 'residual': float(res), 'cond': float(cond)})
        mz = float(model('estimate', lam.tolist(), vals[idx].tolist()))
        ms = float(model('variance', lam.tolist(), b.tolist()))
        if not gen.close(mz, z[i], 1e-9, 1e-9) or not gen.close(ms, sigma[i], 1e-9, 1e-9):
            ctx.problem('correspondence', 'estimate / variance are not lambda.values and lambda.b + mu of the recorded solution (or stored at the wrong position)', setup,
                        {'target': i, 'model_z': mz, 'impl_z': z[i], 'model_sigma': ms, 'impl_sigma': sigma[i]})
        results.append([mz, ms])
    # ---- bookkeeping
    if None in results:
        ctx.count('bookkeeping_skipped')
    if None not in results and len(results) == len(setup['targets']):
        mt = model('transform', results)
        mzs, msg, c1, c2, c3 = mt
        nan_z = [x != x for x in z.tolist()]
        nan_s = [x != x for x in sigma.tolist()]
        if [x is None for x in mzs] != nan_z or [x is None for x in msg] != nan_s:
            ctx.problem('correspondence', 'NaN positions of estimates / variances differ from Kriging.transform', setup, {'z_nan': nan_z, 'sigma_nan': nan_s})
        if (c1, c2, c3) != (ok.no_points_error, ok.singular_error, ok.ill_matrix):
            ctx.problem('correspondence', 'failure counters differ from Kriging.transform', setup, {'model': [c1, c2, c3], 'impl': [ok.no_points_error, ok.singular_error, ok.ill_matrix]})
        if ok.no_points_error + ok.singular_error + ok.ill_matrix != sum(nan_z):
            ctx.problem('oracle', 'failure counters do not add up to the number of NaN results', setup, {'counters': [ok.no_points_error, ok.singular_error, ok.ill_matrix], 'nan': sum(nan_z)})
    if oracle and (not setup['sparse'] or setup['model'] in ('spherical', 'cubic')):
        # the property statement on the raw inputs: first instance of duplicated coordinates, nearest <= max_points within range
        rc, rv = dedup(setup['coords'], setup['values'])
        for i, p in enumerate(setup['targets']):
            bz, bs, st = brute_force(V, setup, p, coords=rc, values=rv)
            ctx.count('oracle_status', st)
            if st == 'nan' and not (z[i] != z[i] and sigma[i] != sigma[i]):
                ctx.problem('oracle', 'target without min_points neighbours in range is not NaN for estimate and variance', setup, {'target': i, 'z': float(z[i]), 'sigma': float(sigma[i])})
            elif st == 'ok' and (not gen.close(bz, z[i], 1e-6, 1e-7) or not gen.close(bs, sigma[i], 1e-6, 1e-7)):
                ctx.problem('oracle', 'estimate/variance differ from the solution of the ordinary-kriging system of the nearest neighbours within range', setup,
                            {'target': i, 'point': p, 'impl': [float(z[i]), float(sigma[i])], 'brute_force': [bz, bs]})
    # ---- a second call on the same instance: counters and sigma belong to THAT call only
    try:
        sub = setup['targets'][::2] + [[1e6] * len(setup['targets'][0])]
        z2 = np.asarray(run_transform(ok, sub), float)
        s2 = np.asarray(ok.sigma, float)
        nan2 = int(np.sum(np.isnan(z2)))
        bounded = not setup['sparse'] or setup['model'] in ('spherical', 'cubic')     # truncated distances are only meaningful for bounded-range models
        if (bounded and ok.no_points_error + ok.singular_error + ok.ill_matrix != nan2) or len(s2) != len(sub) or [a != a for a in z2.tolist()] != [a != a for a in s2.tolist()]:
            ctx.problem('oracle', 'second transform call on the same instance: failure counters %r / variances do not belong to that call (%d NaN results)'
                        % ([ok.no_points_error, ok.singular_error, ok.ill_matrix], nan2), setup, {'z_nan': [a != a for a in z2.tolist()], 'sigma_nan': [a != a for a in s2.tolist()]},
                        {'what': 'second-call-bookkeeping'})
        ref = {tuple(p_): (float(a), float(b)) for p_, a, b in zip(setup['targets'], z.tolist(), sigma.tolist())}
        for p_, a, b in zip(sub[:-1], z2.tolist(), s2.tolist()):
            ra, rb = ref[tuple(p_)]
            if not (gen.close(a, ra, 1e-9, 1e-9) and gen.close(b, rb, 1e-9, 1e-9)):
                ctx.problem('oracle', 'second transform call on the same instance returns other results for the same target', setup, {'target': p_, 'first': [ra, rb], 'second': [a, b]}, {'what': 'second-call-results'})
                break
    except Exception as e:
        ctx.count('second_call_rejected', type(e).__name__)
    ctx.case_done(setup, nontrivial >= 2)
    return ok, V, z, sigma
