"""C09 - kriging results do not depend on how the computation is carried out."""
import numpy as np
import core, gen, krige_common as kc, vario_common as vc
from skgstat import MetricSpace, OrdinaryKriging


def run(ctx, replay=None):
    coq = core.Coq('C09')
    coq.build()
    model = core.Model()
    rng = ctx.rng
    try:
        n = 30 if not ctx.thorough() else 300
        setups = [replay['case']] if replay and replay.get('case') else vc.corpus_cases('C09') + [kc.gen_setup(rng, nmax=30) for _ in range(n)]
        for s in setups:
            r = kc.check_setup(ctx, model, s, oracle=False, prop='C09')
            if r is None:
                continue
            ok0, V, z0, sg0 = r
            try:
                okc, _ = kc.make_ok(s, V=V)
                rec = kc.Recorder(okc)
                kc.run_transform(okc, s['targets'])
                if max([np.linalg.cond(a) for a, b, lam, err in rec.calls] + [1.0]) > 1e7:
                    ctx.count('illconditioned_setup_skipped')     # solver differences there are rounding, not logic
                    continue
            except Exception:
                continue
            T = np.array(s['targets'], float)
            dim = T.shape[1]
            bounded = s['model'] in ('spherical', 'cubic')

            def same(what, z, sg, idx=None, sig=None):
                ref_z = z0 if idx is None else z0[idx]
                ref_s = sg0 if idx is None else sg0[idx]
                for i in range(len(z)):
                    if not (gen.close(z[i], ref_z[i], 1e-6, 1e-7) and gen.close(sg[i], ref_s[i], 1e-6, 1e-7)):
                        ctx.problem('oracle', what, s, {'position': i, 'got': [float(z[i]), float(sg[i])], 'reference': [float(ref_z[i]), float(ref_s[i])]}, sig or {'what': what})
                        return False
                return True
            runs = 0
            # solvers x sparse/dense x input form
            for solver in ('inv', 'numpy', 'scipy'):
                for sparse in ((False, True) if (bounded and s['metric'] == 'euclidean') else (s['sparse'],)):
                    for form in ('arrays', 'metricspace'):
                        try:
                            ok, _ = kc.make_ok(s, V=V, solver=solver, sparse=sparse)
                            if form == 'arrays':
                                z = ok.transform(*[T[:, d] for d in range(dim)])
                            else:
                                ms = kc.target_space(s, T, ok.range if sparse else None)
                                z = ok.transform(ms)
                            ties = False
                            same('result depends on solver=%s / sparse=%s / targets as %s' % (solver, sparse, form), np.asarray(z, float), np.asarray(ok.sigma, float),
                                 sig={'what': 'option-dependence', 'solver': solver, 'sparse': sparse, 'form': form})
                            runs += 1
                        except Exception as e:
                            ctx.count('option_rejected', '%s:%s' % (type(e).__name__, str(e)[:30]))
            # observation coordinates handed over with an integer dtype (raster indices): fractional targets as arrays
            c_ = np.array(s['coords'], float)
            if np.all(c_ == np.round(c_)) and not s.get('mkw'):
                try:
                    Tf = T + 0.375
                    okf, _ = kc.make_ok(s, V=V)
                    zf = np.asarray(okf.transform(*[Tf[:, d] for d in range(dim)]), float)
                    sf = np.asarray(okf.sigma, float).copy()
                    oki, _ = kc.make_ok(s, V=V, coordinates=c_.astype('int64'), values=np.array(s['values'], float))
                    zi = np.asarray(oki.transform(*[Tf[:, d] for d in range(dim)]), float)
                    si = np.asarray(oki.sigma, float)
                    for i in range(len(zf)):
                        if not (gen.close(zi[i], zf[i], 1e-6, 1e-7) and gen.close(si[i], sf[i], 1e-6, 1e-7)):
                            ctx.problem('oracle', 'result depends on the dtype of the observation coordinates (int64 vs float64, fractional array targets)', s,
                                        {'position': i, 'target': Tf[i].tolist(), 'int_coords': [float(zi[i]), float(si[i])], 'float_coords': [float(zf[i]), float(sf[i])]}, {'what': 'coordinate-dtype'})
                            break
                    runs += 1
                    ctx.count('integer_coordinate_runs', True)
                except Exception as e:
                    ctx.count('integer_coords_rejected', type(e).__name__)
            # the instance first used in 'estimate' mode (binned semivariances), then switched back to 'exact'
            try:
                okm, _ = kc.make_ok(s, V=V)
                okm.mode = 'estimate'
                okm.precision = 20
                try:
                    _ = okm.transform(*[T[:, d] for d in range(dim)])
                except Exception as e:
                    ctx.count('estimate_mode_raised', type(e).__name__)          # the approximate mode itself is not the subject here
                okm.mode = 'exact'
                zm = np.asarray(okm.transform(*[T[:, d] for d in range(dim)]), float)
                same('result of exact mode depends on an earlier use of the instance in estimate mode', zm, np.asarray(okm.sigma, float), sig={'what': 'mode-history'})
                runs += 1
            except Exception as e:
                ctx.count('mode_history_rejected', type(e).__name__ + ':' + str(e)[:30])
            # targets as a MetricSpace built from a buffer the caller re-uses between two calls
            try:
                okb, _ = kc.make_ok(s, V=V)
                buf = T.copy()
                msb = kc.target_space(s, buf, okb.range if okb.sparse else None)
                msb_src = msb.coords
                zb1 = np.asarray(okb.transform(msb), float)
                sb1 = np.asarray(okb.sigma, float).copy()
                # (the harness hands its own array to target_space, which copies it; the space must not follow later writes to what it was given)
                if np.shares_memory(msb_src, buf):
                    ctx.problem('oracle', 'a target MetricSpace shares memory with the array it was built from', s, None, {'what': 'target-space-aliases-caller'})
                same('result depends on the targets being given as a MetricSpace (first call)', zb1, sb1, sig={'what': 'target-space'})
                runs += 1
            except Exception as e:
                ctx.count('target_space_rejected', type(e).__name__ + ':' + str(e)[:30])
            # targets as one (n, ndim) array, in particular with exactly ndim targets (a square array)
            try:
                oks, _ = kc.make_ok(s, V=V)
                for nt in sorted({dim, 1, min(len(T), dim + 1)}):
                    if nt > len(T):
                        continue
                    zs1 = np.asarray(oks.transform(T[:nt].copy()), float)
                    ss1 = np.asarray(oks.sigma, float).copy()
                    same('result depends on the targets being given as one (n, ndim) array (n = %d)' % nt, zs1, ss1, idx=np.arange(nt), sig={'what': 'single-array-targets', 'n_equals_ndim': nt == dim})
                    runs += 1
            except Exception as e:
                ctx.count('single_array_rejected', type(e).__name__ + ':' + str(e)[:30])
            # batches, permutations, repeated calls on ONE instance
            ok, _ = kc.make_ok(s, V=V)
            k = rng.randint(1, len(T) - 1)
            za = np.asarray(ok.transform(*[T[:k, d] for d in range(dim)]), float)
            sa = np.asarray(ok.sigma, float).copy()
            zb = np.asarray(ok.transform(*[T[k:, d] for d in range(dim)]), float)
            sb = np.asarray(ok.sigma, float).copy()
            same('result depends on the batch composition (two calls on one instance)', np.concatenate((za, zb)), np.concatenate((sa, sb)))
            perm = list(range(len(T)))
            rng.shuffle(perm)
            zp = np.asarray(ok.transform(*[T[perm, d] for d in range(dim)]), float)
            same('result depends on the order of the targets', zp, np.asarray(ok.sigma, float), idx=np.array(perm))
            zr = np.asarray(ok.transform(*[T[:, d] for d in range(dim)]), float)
            same('a repeated call on the same instance gives different results', zr, np.asarray(ok.sigma, float))
            if len(np.asarray(ok.sigma)) != len(T):
                ctx.problem('oracle', 'sigma has the wrong length after a repeated call', s, {'len': len(ok.sigma)})
            runs += 4
            ctx.tests['option_and_batch_runs'] = ctx.tests.get('option_and_batch_runs', 0) + runs
        vc.run_golden(ctx, coq, model)
    finally:
        model.close()
    ctx.extra['rule'] = ('kriging set-ups as C07; each is re-run for 3 solvers x sparse/dense (bounded-range models, euclidean) x targets as arrays / MetricSpace, '
                         'as two batches, permuted, and repeated on the same instance; non-trivial = >= 2 solved targets')
    return core.finish(ctx, coq, kc.TRUSTED, kc.ASSUME)
