"""Shared case generation / evaluation for the isotropic experimental variogram (C01, C02, C10, C11, C16)."""
import os, json, math, glob, warnings
import numpy as np
from fractions import Fraction
from scipy.spatial.distance import pdist
import core, gen

warnings.filterwarnings('ignore')
import skgstat
from skgstat import Variogram, estimators

TRUSTED_STRUCT = [
    'Coq 8.16.1 kernel (coqc, full .vo builds; vm_compute for the in-Coq golden cases); no native_compute',
    'extraction: ExtrOcamlBasic only (Extract Inductive bool/option/unit/list/prod/sumbool/sumor), no Extract Constant; Z, positive, nat, Q stay inductive; OCaml 4.13.1 + tools/ocaml/driver.ml',
    'correspondence harness tools/harness (generators, exact-rational canonicalisation, tolerance 1e-9 for values computed in floating point)',
    'modelled, not verified: scipy pdist/squareform/cKDTree.sparse_distance_matrix (checked here against exact distances), numpy sort/percentile/median kernels, floating-point rounding',
]
ASSUME_STRUCT = [
    'distances and edges are the floats the implementation produced, read as exact rationals',
    'theorems are about the Gallina model; the tie to skgstat is the differential run on the generated inputs',
]

ESTIMATORS = ['matheron', 'cressie', 'dowd', 'genton']
AUTO = ['sturges', 'scott', 'sqrt', 'doane', 'fd']


def corpus_cases(pid):
    out = []
    for f in sorted(glob.glob(os.path.join(core.VERIF, 'corpus', pid, '*.json'))):
        out.append(json.load(open(f)))
    return out


def gen_case(rng, nmax=30, metrics=('euclidean', 'euclidean', 'cityblock', 'chebyshev'), cross=False):
    kind, c = gen.point_set(rng, nmax=nmax)
    n = len(c)
    vkind, v = gen.values(rng, n)
    metric = rng.choice(list(metrics))
    D = pdist(c, metric)
    dmax = float(D.max()) if len(D) else 0.0
    est = rng.choice(ESTIMATORS)
    if est == 'genton' and n > 22:
        est = rng.choice(ESTIMATORS[:3])       # genton is quartic in the class size
    bf = rng.choice(['even', 'even', 'even', 'uniform', 'uniform', 'custom', 'custom', 'kmeans', 'ward'] + AUTO[:3])
    n_lags = rng.randint(1, 12)
    mform = rng.choice(['none', 'none', 'median', 'mean', 'rel', 'abs', 'abs', 'abs_big'])
    if mform == 'none':
        maxlag = None
    elif mform in ('median', 'mean'):
        maxlag = mform
    elif mform == 'rel':
        maxlag = rng.choice([0.25, 0.5, 0.75, rng.randint(10, 99) / 100.0])
    elif mform == 'abs_big':
        maxlag = float(math.ceil(dmax) + rng.randint(1, 3))
    else:
        ud = sorted(set(float(x) for x in D if x >= 1.0))
        if metric == 'euclidean':
            # "maxlag equal to an occurring distance" only where that distance is exactly representable: the KD-tree of the
            # truncated path has its own arithmetic and may place an irrational distance one ulp beyond the same float
            ud = [x for x in ud if Fraction(x) ** 2 in {gen.exact_dist(c[a_], c[b_], 'euclidean') for a_ in range(n) for b_ in range(a_ + 1, n)}] if n <= 40 else []
        if ud and rng.random() < 0.6:
            maxlag = rng.choice(ud)                     # exactly an occurring distance
        else:
            maxlag = max(1.0, round(rng.uniform(0.3, 1.0) * dmax * 8) / 8.0)
        if maxlag < 1:
            maxlag = 1.0
    bins = None
    if bf == 'custom':
        ud = sorted(set(float(x) for x in D if x > 0))
        k = min(len(ud), rng.randint(1, 8))
        if k == 0:
            bf = 'even'
        else:
            bins = sorted(rng.sample(ud, k))
            if rng.random() < 0.3:
                bins = sorted(bins + [bins[rng.randrange(len(bins))]])     # zero-width class
            if rng.random() < 0.3:
                bins = [round(b * 4) / 4.0 + 0.125 for b in bins]            # edges between distances
                bins = sorted(set(bins))
            maxlag = None
    integral = bool(np.all(c == np.round(c)) and c.min() >= 0 and c.max() < 30000)
    case = {'coords': c.tolist(), 'values': v.tolist(), 'values_dtype': rng.choice([None, None, 'int64', 'uint8']),
            'coords_dtype': rng.choice([None, None, 'int64', 'uint16']) if integral else None,
            'coords_layout': rng.choice([None, None, None, 'F', 'strided', 'list'] + (['flat', 'flat'] if c.shape[1] == 1 else [])), 'values_as_list': rng.random() < 0.15, 'estimator': est, 'bin_func': bf, 'bins': bins,
            'maxlag': maxlag, 'n_lags': n_lags, 'dist_func': metric,
            'tags': {'points': kind, 'values': vkind, 'maxlag_form': mform, 'dim': int(c.shape[1]), 'n': n}}
    if bins is not None and metric == 'euclidean' and max(bins) > 2.0 and rng.random() < 0.35:
        # explicit edges together with an absolute maxlag below the largest edge (the edges decide; nothing may be truncated below them)
        case['maxlag_with_bins'] = float(max(1.0, math.floor(max(bins) * 0.5 * 8) / 8.0 + 1.0 / 64))
        case['tags']['maxlag_form'] = 'abs-with-explicit-edges'
    if cross:
        _, v2 = gen.values(rng, n)
        case['values2'] = v2.tolist()
    return case


def gen_cases(ctx, count, nmax=30, **kw):
    return [gen_case(ctx.rng, nmax=nmax, **kw) for _ in range(count)]


def build(case, **over):
    c = np.array(case['coords'], dtype=float)
    table = over.pop('values_table', None)        # a caller-owned (n,2) table handed over as it is
    cover = over.pop('coordinates_override', None)    # e.g. a pre-built MetricSpace
    v = np.array(case['values'], dtype=float) if table is None else table
    vd = case.get('values_dtype')
    if table is None and vd and np.all(v == np.round(v)) and (vd != 'uint8' or (v.min() >= 0 and v.max() <= 255)) and case.get('values2') is None:
        v = v.astype(vd)          # integer-typed observations are legitimate input
    if case.get('values2') is not None and table is None:
        v = np.column_stack((v, np.array(case['values2'], dtype=float)))
        if vd and np.all(v == np.round(v)) and (vd != 'uint8' or (v.min() >= 0 and v.max() <= 255)):
            v = v.astype(vd)          # an integer-typed (also unsigned) value table is legitimate input
    kw = dict(estimator=case['estimator'], dist_func=case['dist_func'], n_lags=case['n_lags'],
              maxlag=case['maxlag'], fit_method=None)
    if case.get('bins') is not None:
        kw['bin_func'] = np.array(case['bins'], dtype=float)
        if case.get('maxlag_with_bins') is None:
            kw.pop('maxlag')
        else:
            kw['maxlag'] = case['maxlag_with_bins']        # explicit edges AND an (absolute) maxlag: the edges decide
    else:
        kw['bin_func'] = case['bin_func']
    kw.update(over)
    # the same points / values in other legitimate representations: integer dtypes, column-major or strided memory, plain lists
    if case.get('coords_dtype') and np.all(c == np.round(c)) and c.min() >= 0:
        c = c.astype(case['coords_dtype'])
    lay = case.get('coords_layout')
    if lay == 'F' and c.ndim == 2:
        c = np.asfortranarray(c)
    elif lay == 'strided':
        big = np.zeros((2 * len(c),) + c.shape[1:], dtype=c.dtype)
        big[::2] = c
        c = big[::2]
    elif lay == 'list':
        c = c.tolist()
    elif lay == 'flat' and c.ndim == 2 and c.shape[1] == 1:
        c = c.ravel()          # one-dimensional coordinates given as a flat vector
    if case.get('values_as_list') and table is None:
        v = v.tolist()
    if cover is not None:
        c = cover
    return Variogram(c, v, **kw)


def nan_to_none(x):
    return [None if (isinstance(t, float) and t != t) else t for t in x]


def same_float(a, b):
    a, b = float(a), float(b)
    return (a != a and b != b) or a == b


def doc_estimator(name, x):
    """The documented formulas, written independently of estimators.py (float arithmetic)."""
    x = np.asarray(x, dtype=float)
    n = x.size
    if name == 'matheron':
        return float('nan') if n == 0 else float(np.sum(x ** 2) / (2.0 * n))
    if name == 'cressie':
        if n == 0:
            return float('nan')
        return float((np.mean(np.sqrt(np.abs(x))) ** 4) / (0.457 + 0.494 / n + 0.045 / n ** 2) / 2.0)
    if name == 'dowd':
        return float('nan') if n == 0 else float(2.198 * np.median(x) ** 2 / 2.0)
    if name == 'genton':
        if n < 2:
            return float('nan')
        iu = np.triu_indices(n, 1)
        y = np.abs(x[iu[0]] - x[iu[1]])
        if n >= 500:
            p = 0.25
        else:
            a = n / 2.0 + 1.0
            p = (a * (a - 1) / 2.0) / (n * (n - 1) / 2.0)
        ys = np.sort(y)
        pos = (len(ys) - 1) * p
        lo = int(math.floor(pos))
        hi = min(lo + 1, len(ys) - 1)
        qv = ys[lo] + (pos - lo) * (ys[hi] - ys[lo])
        return float(0.5 * (2.219 * qv) ** 2)
    raise ValueError(name)


def pair_distances(case):
    """float distances of all pairs a<b as the metric defines them (scipy pdist, condensed order),
    validated against the exact rational distance of each pair (1e-12 relative)."""
    c = np.array(case['coords'], dtype=float)
    d = pdist(c, case['dist_func'])
    n = len(c)
    k = 0
    for a in range(n):
        for b in range(a + 1, n):
            exd = gen.exact_dist(c[a], c[b], case['dist_func'])
            dd = Fraction(float(d[k])) ** 2 if case['dist_func'] == 'euclidean' else Fraction(float(d[k]))
            if abs(dd - exd) > Fraction(1, 10 ** 12) * max(1, exd):
                raise AssertionError('scipy pdist disagrees with the exact distance of pair (%d,%d)' % (a, b))
            k += 1
    iu = np.triu_indices(n, 1)
    return d, iu[0], iu[1]


def eval_structure_case(ctx, model, case, prop='C01', V=None, checks=('model', 'oracle')):
    """Correspondence model<->implementation and the C01 oracle on one constructor configuration."""
    tags = case.get('tags', {})
    for k, v in tags.items():
        ctx.count(k, v)
    ctx.count('estimator', case['estimator'])
    ctx.count('bin_func', case['bin_func'])
    ctx.count('metric', case['dist_func'])
    try:
        V = V or build(case)
        D = np.asarray(V.distance, dtype=float)
        edges = np.asarray(V.bins, dtype=float)
        X = np.asarray(V.pairwise_diffs, dtype=float)
        G = np.asarray(V.lag_groups())
        classes = [np.asarray(a, dtype=float) for a in V.lag_classes()]
        counts = np.asarray(V.bin_count)
        exp = np.asarray(V.experimental, dtype=float)
    except Exception as e:
        ctx.count('rejected', type(e).__name__)
        ctx.case_done(case, False)
        return None
    if not (len(classes) == len(edges) == len(counts) == len(exp)):
        ctx.problem('oracle', 'number of lag classes / pair counts / semivariances differs from the number of lag edges', case,
                    {'edges': len(edges), 'classes': len(classes), 'counts': len(counts), 'experimental': len(exp)}, {'what': 'lengths-differ'})
        ctx.case_done(case, False)
        return V
    sparse_path = not isinstance(V.distance_matrix, np.ndarray)
    ctx.count('path', 'sparse' if sparse_path else 'dense')
    n = len(case['coords'])
    v = np.array(case['values'], dtype=float)
    est_fn = V._estimator
    if not (np.all(np.isfinite(D)) and np.all(np.isfinite(edges))):
        # no pair distance within the maximum lag: the quantile / range of nothing (outside C02's guard, nothing to classify)
        ctx.count('degenerate_nan_edges')
        ctx.case_done(case, False)
        return V
    # ---------------- correspondence with the executable model
    if 'model' in checks:
        ctx.disagreements_checked += 1
        gold = len(D) <= 40 and len(model.golden) < 60
        mg = model('groups', edges.tolist(), D.tolist(), golden=gold)
        ig = [None if g < 0 else int(g) for g in G.tolist()]
        if mg != ig:
            k = next(i for i in range(len(ig)) if mg[i] != ig[i])
            ctx.problem('correspondence', 'lag group of a pair differs from Groups.group_of', case,
                        {'k': k, 'd': D[k], 'edges': edges.tolist(), 'model': mg[k], 'impl': ig[k]})
        mpos = model('class_positions', edges.tolist(), D.tolist(), golden=gold)
        mcnt = model('bin_count', edges.tolist(), D.tolist(), golden=gold)
        if len(mpos) != len(classes) or len(exp) != len(edges) or len(counts) != len(edges):
            ctx.problem('correspondence', 'number of lag classes differs from number of edges', case,
                        {'edges': len(edges), 'classes': len(classes), 'exp': len(exp)})
        else:
            for i, pos in enumerate(mpos):
                sel = X[pos] if len(pos) else np.array([])
                if len(sel) != len(classes[i]) or not np.array_equal(sel, classes[i]):
                    ctx.problem('correspondence', 'lag class content differs from Groups.lag_class', case,
                                {'class': i, 'model_positions': pos[:20], 'impl_size': len(classes[i])})
                    break
                if mcnt[i] != int(counts[i]):
                    ctx.problem('correspondence', 'bin_count differs from Groups.bin_count', case,
                                {'class': i, 'model': mcnt[i], 'impl': int(counts[i])})
                    break
                want = est_fn(sel) if len(sel) else float('nan')
                if not same_float(want, exp[i]):
                    ctx.problem('correspondence', 'experimental[i] is not the estimator applied to class i', case,
                                {'class': i, 'estimator_on_class': want, 'impl': exp[i]})
                    break
        # alignment of the condensed vectors
        if not sparse_path:
            if len(D) != n * (n - 1) // 2 or len(X) != len(D):
                ctx.problem('correspondence', 'condensed vector length != n(n-1)/2', case, {'len': len(D), 'n': n})
            else:
                prs = model('pairs', n, golden=(n <= 8 and len(model.golden) < 60))
                c = np.array(case['coords'], dtype=float)
                for k, (a, b) in enumerate(prs):
                    exd = gen.exact_dist(c[a], c[b], case['dist_func'])
                    dd = Fraction(float(D[k])) ** 2 if case['dist_func'] == 'euclidean' else Fraction(float(D[k]))
                    if abs(dd - exd) > Fraction(1, 10 ** 12) * max(1, exd):
                        ctx.problem('correspondence', 'k-th distance is not the distance of the k-th pair (Pairs.pairs)', case,
                                    {'k': k, 'pair': [a, b], 'impl_d': D[k], 'exact': float(exd)})
                        break
                    xv = abs(Fraction(float(v[a])) - Fraction(float(v[b])))
                    want = xv if case.get('values2') is None else xv * abs(Fraction(float(case['values2'][a])) - Fraction(float(case['values2'][b])))
                    if abs(Fraction(float(X[k])) - want) > Fraction(1, 10 ** 12) * max(1, want):
                        ctx.problem('correspondence', 'k-th pairwise difference does not belong to the k-th pair', case,
                                    {'k': k, 'pair': [a, b], 'impl_x': X[k], 'exact': float(want)})
                        break
        else:
            m = V.distance_matrix.tocsr()
            m.sort_indices() if False else None
            rows = []
            for i in range(m.shape[0]):
                lo, hi = m.indptr[i], m.indptr[i + 1]
                rows.append([[int(j), float(dv)] for j, dv in zip(m.indices[lo:hi], m.data[lo:hi])])
            tl = model('tri_lower', rows, golden=(n <= 7 and len(model.golden) < 60))
            if [float(t[2]) for t in tl] != D.tolist():
                ctx.problem('correspondence', 'sparse distance vector differs from Sparse.tri_lower', case,
                            {'model_len': len(tl), 'impl_len': len(D)})
            else:
                for k, (a, b, dv) in enumerate(tl):
                    xv = abs(float(v[a]) - float(v[b]))
                    if case.get('values2') is not None:
                        xv = xv * abs(float(case['values2'][a]) - float(case['values2'][b]))
                    if not gen.close(xv, X[k], 1e-12):
                        ctx.problem('correspondence', 'sparse path: k-th difference does not belong to the k-th stored pair', case,
                                    {'k': k, 'pair': [a, b], 'impl_x': X[k], 'expected': xv})
                        break
                    exd = gen.exact_dist(np.array(case['coords'][a]), np.array(case['coords'][b]), 'euclidean')
                    if abs(Fraction(float(dv)) ** 2 - exd) > Fraction(1, 10 ** 12) * max(1, exd):
                        ctx.problem('correspondence', 'sparse path: stored distance is not the true distance of its pair', case,
                                    {'k': k, 'pair': [a, b], 'stored': float(dv), 'exact_sq': float(exd)})
                        break
    # ---------------- oracle: the property statement, brute force over raw pairs, exact comparisons
    nonempty = 0
    if 'oracle' in checks:
        metric = case['dist_func']
        dall, ia, ib = pair_distances(case)
        lo_edges = [0.0] + edges.tolist()[:-1]
        fuzzy = False
        if sparse_path:
            # cKDTree distances may differ from pdist in the last place: skip when that could matter
            full = V.distance_matrix
            for k in range(len(dall)):
                st = full[int(ib[k]), int(ia[k])]
                if st != 0 and st != dall[k] and any(abs(dall[k] - e) <= 1e-13 * max(1.0, abs(e)) for e in edges.tolist()):
                    fuzzy = True
        members = [[] for _ in edges]
        for i, (lo, hi) in enumerate(zip(lo_edges, edges.tolist())):
            sel = np.where((dall >= lo) & (dall < hi))[0]
            members[i] = [(int(ia[k]), int(ib[k])) for k in sel]
        if fuzzy:
            ctx.count('oracle_skipped_rounding')
        else:
            for i, mem in enumerate(members):
                if len(mem):
                    nonempty += 1
                if len(mem) != int(counts[i]):
                    zero_pairs = [p for p in mem if gen.exact_dist(np.array(case['coords'][p[0]]), np.array(case['coords'][p[1]]), metric) == 0]
                    sig = {'what': 'pair count of a lag class differs from brute force', 'path': 'sparse' if sparse_path else 'dense'}
                    if sparse_path and len(mem) - int(counts[i]) == len(zero_pairs) and zero_pairs:
                        sig = {'what': 'zero-distance pairs missing', 'path': 'sparse'}
                    ml_ = case.get('maxlag')
                    if (sparse_path and case.get('bins') is None and case['bin_func'] in AUTO + ['rice'] and isinstance(ml_, float) and ml_ >= 1
                            and len(set(float(x) for x in dall if x <= ml_)) < 2 and float(edges[-1]) > ml_ and len(mem) > int(counts[i])):
                        # F17: a zero-width range handed to numpy's rule-based binning is widened by +-0.5; the edge exceeds maxlag and the
                        # truncated distance matrix does not hold the pairs between maxlag and that edge
                        sig = {'what': 'rule-based-zero-range-edge-exceeds-maxlag', 'path': 'sparse'}
                    ctx.problem('oracle', 'class %d: %d pairs counted, %d pairs have edge[i-1] <= d < edge[i]' % (i, int(counts[i]), len(mem)),
                                case, {'class': i, 'edges': edges.tolist(), 'impl': int(counts[i]), 'brute': len(mem), 'path': sig['path']}, sig)
                    break
                xs = [abs(float(v[a]) - float(v[b])) for a, b in mem]
                if case.get('values2') is not None:
                    v2 = case['values2']
                    xs = [x * abs(float(v2[a]) - float(v2[b])) for x, (a, b) in zip(xs, mem)]
                want = doc_estimator(case['estimator'], xs)
                if not gen.close(want, exp[i], 1e-9, 1e-12):
                    ctx.problem('oracle', 'class %d: semivariance %r, documented estimator over the class pairs gives %r' % (i, float(exp[i]), want),
                                case, {'class': i, 'impl': float(exp[i]), 'doc': want, 'n_pairs': len(mem)})
                    break
    nonempty = int(sum(1 for k_ in counts.tolist() if k_ > 0))
    ctx.case_done(case, nonempty >= 2)
    return V


def check_estimators(ctx, model, count):
    """estimators.py functions against the exact-rational models (Matheron, Dowd, Genton)."""
    rng = ctx.rng
    bad = 0
    for t in range(count):
        n = rng.choice([0, 1, 2, 3, 4, 5, 6, 7, 8, 9, 12, 15, 20])
        kind = rng.choice(['ints', 'dyadic', 'ties'])
        if kind == 'ints':
            x = [float(rng.randint(0, 30)) for _ in range(n)]
        elif kind == 'dyadic':
            x = [rng.randint(0, 4096) / 256.0 for _ in range(n)]
        else:
            x = [float(rng.choice([1, 2, 2, 5])) for _ in range(n)]
        arr = np.array(x, dtype=float)
        for name in ('matheron', 'dowd', 'genton'):
            mv = model(name, x, golden=(n <= 6 and len(model.golden) < 90 and t % 4 == 0))
            fn = getattr(estimators, name)
            iv = float(fn(arr)) if not (name == 'dowd' and n == 0) else float('nan')
            ctx.count('estimator_fn', name)
            ok = (mv is None and iv != iv) or (mv is not None and gen.close(float(mv), iv, 1e-9, 1e-12))
            if not ok:
                bad += 1
                ctx.problem('correspondence', 'estimators.%s differs from its exact model' % name,
                            {'estimator_input': x}, {'model': None if mv is None else float(mv), 'impl': iv})
    # class sizes around Genton's documented N >= 500 switch (k/q = 1/4) and large classes: documented formulas (float)
    for n in (1, 2, 3, 499, 500, 501, 640, 1100, 1300):
        arr = np.array([rng.randint(0, 4096) / 64.0 for _ in range(n)], dtype=float)
        for name in (('matheron', 'cressie', 'dowd', 'genton') if n < 1000 else ('genton', 'dowd')):
            want = doc_estimator(name, arr)
            got = float(getattr(estimators, name)(arr))
            if not gen.close(want, got, 1e-9, 1e-12):
                bad += 1
                ctx.problem('oracle', 'estimators.%s of a class of %d pairs differs from the documented formula' % (name, n), {'estimator': name, 'class_size': n, 'class_seed_values': arr[:6].tolist()},
                            {'documented': want, 'impl': got}, {'what': 'estimator-formula', 'estimator': name})
    ctx.tests['estimator_function_evaluations'] = count * 3 + 24
    return bad


def run_golden(ctx, coq, model):
    cases = [(model.fn[f], a, r) for f, a, r in model.golden]
    if not cases:
        return
    idx, log = coq.golden(cases)
    ctx.golden_cases += len(cases)
    if idx is None:
        coq.broken.append({'kind': 'proof', 'file': 'Cases/%s_cases.v' % ctx.pid, 'lemma': 'golden cases', 'error': log})
    elif idx:
        f, a, r = model.golden[idx[0]]
        coq.broken.append({'kind': 'extraction', 'file': 'Cases/%s_cases.v' % ctx.pid, 'lemma': 'vm_compute vs extracted model',
                           'error': 'in-Coq evaluation of %s differs from the extracted code on %d case(s)' % (f, len(idx))})


def ward_reference(ctx, case, V, edges, maxlag_abs):
    """dense path against the documented construction of bin_func='ward': cluster the distances within maxlag (in the
    order the space enumerates them), centres = cluster means, edges half-way between neighbouring centres"""
    try:
        from sklearn.cluster import AgglomerativeClustering
        dall = np.asarray(V.distance, float)
        ml = dall.max() if maxlag_abs is None else min(maxlag_abs, dall.max())
        dref = dall[dall <= ml]
        lab = AgglomerativeClustering(linkage='ward', n_clusters=case['n_lags']).fit(dref.reshape(-1, 1)).labels_
        cen = np.sort([dref[lab == i].mean() for i in np.unique(lab)])
        eref = np.array([(lo + up) / 2 for lo, up in zip([0] + list(cen)[:-1], cen)])
        edges = np.asarray(edges, float)
        if len(eref) != len(edges) or not all(gen.close(p_, q_, 1e-12, 1e-12) for p_, q_ in zip(eref, edges)):
            ctx.problem('oracle', 'dense path: ward lag edges are not the mid-points between the means of the clusters of the distances within maxlag', case,
                        {'edges': edges.tolist(), 'reference': eref.tolist(), 'maxlag': ml}, {'what': 'ward-reference', 'path': 'dense'})
            return False
        ctx.tests['ward_reference'] = ctx.tests.get('ward_reference', 0) + 1
    except Exception as e:
        ctx.count('ward_reference_rejected', type(e).__name__)
    return True
