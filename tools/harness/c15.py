"""C15 - the space-time model is fitted to each cell at its own space and time lag."""
import numpy as np
from scipy.optimize import lsq_linear
import core, gen, vario_common as vc, st_common as st
import sys, skgstat
stmod = sys.modules["skgstat.SpaceTimeVariogram"]


class FitRecorder:
    """wraps the module-level name curve_fit used by SpaceTimeVariogram.fit (no source change)"""

    def __init__(self):
        self.calls = []
        self.inner = stmod.curve_fit

    def __enter__(self):
        stmod.curve_fit = self
        return self

    def __exit__(self, *a):
        stmod.curve_fit = self.inner

    def __call__(self, f, xdata, ydata, **kw):
        self.calls.append((np.array(xdata, float), np.array(ydata, float), dict(kw, _f=f)))
        return self.inner(f, xdata, ydata, **kw)


def documented(model, Vx, Vt, h, t, cof, par):
    gx, gt = float(Vx(h)), float(Vt(t))
    if model == 'sum':
        return gx + gt
    if model == 'product':
        return par['Cx'] * gt + par['Ct'] * gx - gx * gt
    k1, k2, k3 = cof
    return (k1 * par['Ct'] + k2) * gx + (k1 * par['Cx'] + k3) * gt - k1 * gx * gt


def check_fit(ctx, model, case, V, rec, label=''):
    xb, tb = np.asarray(V.xbins, float), np.asarray(V.tbins, float)
    z = np.asarray(V.experimental, float)
    if not (np.all(np.isfinite(xb)) and np.all(np.isfinite(tb))):
        return False
    X, T = len(xb), len(tb)
    want = model('fit_samples', xb.tolist(), tb.tolist(), [None if v != v else float(v) for v in z.tolist()], golden=(X * T <= 9 and len(model.golden) < 20))
    ctx.disagreements_checked += 1
    Vx, Vt = V.XMarginal.fitted_model, V.TMarginal.fitted_model
    # the documented combination uses the SILLS of the two marginal variograms (not whatever the instance keeps internally)
    par = {'Cx': float(V.XMarginal.describe()['sill']), 'Ct': float(V.TMarginal.describe()['sill'])}
    ctx.count('marginal_nugget', bool(case.get('use_nugget')))
    cof = [float(x) for x in (V.cof if V.cof is not None else [])]
    mname = case['model'].replace('-', '_')
    if rec.calls:
        xd, yd, kw = rec.calls[-1]
        got = [[float(a), float(b), float(c)] for (a, b), c in zip(xd.tolist(), yd.tolist())]
        wl = [[float(a), float(b), float(c)] for a, b, c in want]
        if got != wl:
            ctx.problem('correspondence', 'the sample table handed to curve_fit differs from SpaceTime.fit_samples (lags of the own cell, NaN cells dropped)%s' % label, case,
                        {'impl_first': got[:4], 'model_first': wl[:4], 'n_impl': len(got), 'n_model': len(wl)}, {'what': 'fit-samples'})
            # oracle: is there a cell whose semivariance was paired with foreign lags?
            for k, (a, b, c) in enumerate(got):
                cells = [(i, j) for i in range(X) for j in range(T) if z[i * T + j] == c]
                if cells and all((xb[i], tb[j]) != (a, b) for i, j in cells):
                    ctx.problem('oracle', 'semivariance of cell %s is fitted at lags (%r, %r), not at its own space/time lag' % (cells[0], a, b), case,
                                {'sample': k, 'cell_lags': [float(xb[cells[0][0]]), float(tb[cells[0][1]])]}, {'what': 'foreign-lags'})
                    break
            return False
    elif mname == 'product_sum':
        ctx.problem('correspondence', 'no least-squares call recorded for the product-sum model', case, None)
    if rec.calls and mname == 'product_sum' and rec.calls[-1][2].get('_f') is not None:
        # the function handed to the optimiser IS the documented combination of the two marginal models, at every sample lag
        xd, yd, kwc = rec.calls[-1]
        fobj = kwc['_f']
        try:
            for kk in ([0.7, 0.3, 0.2], [0.0, 1.0, 1.0], [1.5, 0.0, 0.4]):
                gotf = np.asarray(fobj(xd, *kk), float).ravel()          # xdata is the (N, 2) table of (space lag, time lag)
                lagsf = xd
                wantf = [documented('product_sum', Vx, Vt, a_, b_, kk, par) for a_, b_ in np.asarray(lagsf, float).tolist()]
                if len(gotf) != len(wantf) or not all(gen.close(g_, w_, 1e-9, 1e-12) for g_, w_ in zip(gotf, wantf)):
                    ctx.problem('oracle', 'the model function handed to the least-squares fit is not the documented product-sum combination of the marginal models at the sample lags%s' % label, case,
                                {'k': kk, 'function': gotf.tolist()[:6], 'documented': wantf[:6], 'lags': np.asarray(lagsf, float).tolist()[:6]}, {'what': 'fit-function'})
                    break
        except Exception as e:
            ctx.count('fit_function_rejected', type(e).__name__ + ':' + str(e)[:40])
    wl = [[float(a), float(b), float(c)] for a, b, c in want]
    # local optimality (product-sum is linear in k1,k2,k3: the bounded optimum is computable) - a TEST, not a theorem
    if mname == 'product_sum' and len(cof) == 3 and len(wl) >= 3:
        gx = np.array([float(Vx(a)) for a, _, _ in wl])
        gt = np.array([float(Vt(b)) for _, b, _ in wl])
        y = np.array([c for _, _, c in wl])
        A = np.column_stack((par['Ct'] * gx + par['Cx'] * gt - gx * gt, gx, gt))
        # collinearity is judged on the column-equilibrated design (the three columns differ in scale by the marginal sills)
        if np.linalg.cond(A / np.maximum(np.linalg.norm(A, axis=0), 1e-300)) > 1e8:
            ctx.count('degenerate_design_skipped')          # collinear columns (e.g. a single space lag): the optimum is not unique / at infinity
            return True
        opt = lsq_linear(A, y, bounds=(0, np.inf))
        sse_opt = float(np.sum((A.dot(opt.x) - y) ** 2))
        sse = float(np.sum((A.dot(np.array(cof)) - y) ** 2))
        ctx.tests['local_optimality_checks'] = ctx.tests.get('local_optimality_checks', 0) + 1
        if sse > sse_opt * (1 + 1e-3) + 1e-9 * max(1.0, float(np.sum(y ** 2))):
            ctx.problem('oracle', 'fitted parameters are not a least-squares optimum of the table paired with its own lags%s' % label, case,
                        {'sse_fit': sse, 'sse_optimum': sse_opt, 'cof': cof, 'optimum': opt.x.tolist()}, {'what': 'not-optimal'})
    # the fitted model evaluates to the documented combination of the marginal models
    fm = V.fitted_model
    for N in (1, 2, 3, 5):
        lags = np.array([[float(xb[(k * 7) % X]) * (0.5 + 0.25 * k), float(tb[(k * 3) % T]) * (0.5 + 0.5 * (k % 2))] for k in range(N)])
        try:
            out = np.asarray(fm(lags), float).ravel()
            single = float(fm(lags[0]))
        except Exception as e:
            ctx.count('fitted_model_rejected', type(e).__name__)
            continue
        wantv = [documented(mname, Vx, Vt, a, b, cof, par) for a, b in lags.tolist()]
        if len(out) != N or not all(gen.close(o, w, 1e-9, 1e-12) for o, w in zip(out, wantv)) or not gen.close(single, wantv[0], 1e-9, 1e-12):
            ctx.problem('oracle', 'fitted space-time model does not evaluate to the documented combination of the marginal models%s' % label, case,
                        {'lags': lags.tolist(), 'got': out.tolist(), 'documented': wantv, 'single': single}, {'what': 'model-combination', 'model': mname})
            break
    # integer-typed (N, 2) lag arrays: same values as the same lags given as floats
    try:
        li = np.array([[1, 1], [2, 1], [3, 2], [5, 3]], dtype=rng_int_dtype(case))
        oi = np.asarray(fm(li), float).ravel()
        of = np.asarray(fm(li.astype(float)), float).ravel()
        if len(oi) != len(of) or not all(gen.close(a_, b_, 1e-12, 1e-12) for a_, b_ in zip(oi, of)):
            ctx.problem('oracle', 'fitted space-time model evaluated on an integer-typed lag array (%s) differs from the same lags as floats%s' % (li.dtype, label), case,
                        {'int': oi.tolist(), 'float': of.tolist()}, {'what': 'int-lag-array', 'model': mname})
    except Exception as e:
        ctx.count('int_lags_rejected', type(e).__name__)
    return True


def rng_int_dtype(case):
    return ['int64', 'int32', 'uint8'][len(case['coords']) % 3]


def run(ctx, replay=None):
    coq = core.Coq('C15')
    coq.build()
    ctx.translations = coq.translated
    model = core.Model()
    rng = ctx.rng
    try:
        n = 45 if not ctx.thorough() else 450
        cases = [replay['case']] if replay and replay.get('case') else vc.corpus_cases('C15') + [st.gen_case(rng, nmax=9, tmax=6) for _ in range(n)]
        if not replay:
            # always part of a run: space lag edges numerically identical to time lag edges
            for i_ in range(4):
                ec = st.gen_case(rng, nmax=9, tmax=6)
                ec.update(xbins='even', tbins='even', explicit_bins={'x': [1.0, 2.0, 3.0, 4.0][: 3 + i_ % 2], 't': [1.0, 2.0, 3.0]}, x_lags=3 + i_ % 2, t_lags=3, maxlag=None, model=['product-sum', 'product', 'sum', 'product-sum'][i_],
                          coords=[[float(a_), float(b_)] for a_ in range(3) for b_ in range(3)][: len(ec['coords'])] if len(ec['coords']) <= 9 else ec['coords'])
                ec['values'] = ec['values'][: len(ec['coords'])]
                ec['tags'] = dict(ec['tags'], stream='equal-space-time-edges')
                cases.append(ec)
        for case in cases:
            ctx.count('model', case['model'])
            ctx.count('lags', 'equal' if case['x_lags'] == case['t_lags'] else 'different')
            try:
                with FitRecorder() as rec:
                    V = st.build(case)
                    if case.get('explicit_bins'):
                        V.xbins = list(case['explicit_bins']['x'])
                        V.tbins = list(case['explicit_bins']['t'])
                    V.fit()
                    ok = check_fit(ctx, model, case, V, rec)
                    nan_cells = int(np.sum(np.isnan(np.asarray(V.experimental, float))))
                    ctx.count('nan_cells', min(nan_cells, 3))
                    # re-fit after a lag change on the same instance: the new table has to be used
                    if ok and rng.random() < 0.6:
                        rec.calls.clear()
                        newx = case['x_lags'] + 1 if case['x_lags'] < 5 else case['x_lags'] - 1
                        # a model function obtained earlier keeps denoting the model it was obtained for
                        xb0, tb0 = np.asarray(V.xbins, float), np.asarray(V.tbins, float)
                        probe = np.array([[float(xb0[0]) * 0.5, float(tb0[0])], [float(xb0[-1]), float(tb0[-1]) * 0.5], [float(xb0[-1]) * 0.75, float(tb0[0]) * 0.5]])
                        f_old, v_old = None, None
                        try:
                            f_old = V.fitted_model
                            v_old = np.asarray(f_old(probe), float).ravel()
                        except Exception:
                            f_old = None
                        V.x_lags = newx
                        V.fit()
                        if f_old is not None:
                            try:
                                v_again = np.asarray(f_old(probe), float).ravel()
                                if len(v_again) != len(v_old) or not all(gen.close(a, b, 1e-12, 1e-12) for a, b in zip(v_old, v_again)):
                                    ctx.problem('oracle', 'a fitted-model function obtained before a re-fit of the same instance evaluates differently afterwards', dict(case, x_lags_after=newx),
                                                {'before': v_old.tolist(), 'after': v_again.tolist()}, {'what': 'earlier-model-function-changed'})
                            except Exception as e:
                                ctx.problem('oracle', 'a fitted-model function obtained before a re-fit raises afterwards: %s' % type(e).__name__, dict(case, x_lags_after=newx), None, {'what': 'earlier-model-function-changed'})
                        check_fit(ctx, model, dict(case, x_lags_after=newx), V, rec, label=' (after x_lags was changed and fit() called again)')
            except Exception as e:
                ctx.count('rejected', type(e).__name__ + ':' + str(e)[:40])
                ctx.case_done(case, False)
                continue
            ctx.case_done(case, ok and case['model'] == 'product-sum' or ok)
        vc.run_golden(ctx, coq, model)
    finally:
        model.close()
    ctx.extra['rule'] = ('space-time data sets as C14 x 3 models; the (xdata, ydata) of the recorded curve_fit call against the model, the fitted model against the documented formula on (N,2) lag arrays N in {1,2,3,5} and single lags, '
                         'bounded linear least squares as optimality reference for product-sum; re-fit after a lag change; non-trivial = fit examined')
    return core.finish(ctx, coq, st.TRUSTED + ['translator tools/py2coq.py for stmodels.py (bridge = Properties/C15.v formula theorems)'],
                       ['local optimality of curve_fit is tested against a bounded linear least-squares reference, not proved',
                        'marginal models enter as the callables the implementation itself built'])
