"""C01 - experimental variogram = estimator over exactly the pairs of each lag class.

Proof side: Properties/C01.v.  Correspondence: the executable model (pairs, groups,
class_positions, bin_count, sparse lower triangle) against Variogram on generated inputs;
oracle: the property statement by brute force over raw point pairs with exact arithmetic."""
import math, itertools
import numpy as np
from fractions import Fraction
import core, gen, vario_common as vc


def run(ctx, replay=None):
    coq = core.Coq('C01')
    coq.build()
    model = core.Model()
    try:
        if replay is not None:
            cases = [replay['case']] if replay.get('case') else []
        else:
            cases = vc.corpus_cases('C01') + vc.gen_cases(ctx, 150 if not ctx.thorough() else 1500,
                                                          nmax=30 if not ctx.thorough() else 60)
        rng = ctx.rng
        for case in cases:
            if case.get('living'):
                V = vc.build(dict(case, dist_func=case['living']['metric_before']))
                _ = V.experimental, V.bin_count
                V.set_dist_function(case['dist_func'])
                vc.eval_structure_case(ctx, model, case, prop='C01', V=V)
                continue
            vc.eval_structure_case(ctx, model, case, prop='C01')
        # the same statement on living instances: after the metric was exchanged in place, groups, counts and semivariances
        # belong to the distances and edges the instance now reports
        nliving = 0
        for case in cases:
            if replay is not None or case.get('living') or nliving >= (25 if not ctx.thorough() else 250) or case.get('values2') is not None:
                continue
            if not (case.get('bins') is not None or rng.random() < 0.25):
                continue
            ml = case.get('maxlag')
            if isinstance(ml, float) and ml >= 1:
                continue          # absolute maxlag: truncated distances, the metric change is C11's subject
            if rng.random() < 0.3:
                # the caller rescales the array returned by `bins` in place (what a normalised plot does): the instance is unaffected
                try:
                    V = vc.build(case)
                    _ = V.experimental, V.bin_count
                    b_ = V.bins
                    b_ /= max(1.0, float(np.nanmax(b_))) * 2.0
                except Exception as e:
                    ctx.count('living_rejected', type(e).__name__)
                    continue
                nliving += 1
                ctx.count('living_instance', 'returned-bins-rescaled')
                vc.eval_structure_case(ctx, model, dict(case, living_note='the array returned by bins was rescaled in place by the caller'), prop='C01', V=V)
                continue
            if rng.random() < 0.3:
                # the caller edits the array returned by `values` and assigns it back: the differences follow the new values
                try:
                    V = vc.build(case)
                    _ = V.experimental, V.bin_count
                    vals_ = V.values
                    newv = (np.asarray(vals_, float) * 3.0 + np.arange(len(vals_)) % 5).astype(np.asarray(vals_).dtype if np.asarray(vals_).dtype.kind == 'f' else float)
                    if isinstance(vals_, np.ndarray) and vals_.dtype.kind == 'f':
                        vals_[...] = newv
                        V.values = vals_
                    else:
                        V.values = newv
                except Exception as e:
                    ctx.count('living_rejected', type(e).__name__)
                    continue
                nliving += 1
                ctx.count('living_instance', 'values-edited-and-assigned-back')
                vc.eval_structure_case(ctx, model, dict(case, values=np.asarray(newv, float).tolist(), values_dtype=None, values_as_list=False,
                                                        living_note='values edited through the array returned by the values property and assigned back'), prop='C01', V=V)
                continue
            if rng.random() < 0.25 and case.get('bins') is None:
                # a pre-built MetricSpace; the caller re-uses the array it was built from; then new values are assigned
                try:
                    from skgstat import MetricSpace
                    buf = np.array(case['coords'], float)
                    ml_ = case.get('maxlag')
                    msp = MetricSpace(buf, case['dist_func'], ml_ if (isinstance(ml_, float) and ml_ >= 1 and case['dist_func'] == 'euclidean') else None)
                    V = vc.build(dict(case, coords_dtype=None, coords_layout=None), coordinates_override=msp)
                    _ = V.experimental
                    buf *= 0.5
                    buf += 3.0
                    newv = (np.array(case['values'], float) * 2.0 + 1.0)
                    V.values = newv
                    orig_ = np.array(case['coords'], float)
                    rep_ = np.asarray(V.coordinates, float).reshape(len(orig_), -1)[:, :orig_.shape[1]]
                    if not np.array_equal(rep_, orig_):
                        ctx.problem('oracle', 'the variogram reports other coordinates than the points its distances and lag classes were computed from (the caller rescaled the source array of the MetricSpace)',
                                    dict(case, living_note='metricspace-buffer-reused'), {'reported_first': rep_[:2].tolist(), 'built_from_first': orig_[:2].tolist()}, {'what': 'coordinates-follow-caller'})
                except Exception as e:
                    ctx.count('living_rejected', type(e).__name__)
                    continue
                nliving += 1
                ctx.count('living_instance', 'metricspace-buffer-reused')
                vc.eval_structure_case(ctx, model, dict(case, values=newv.tolist(), values_dtype=None, values_as_list=False,
                                                        living_note='built on a MetricSpace whose source array the caller rescaled afterwards; values assigned anew'), prop='C01', V=V)
                continue
            other = rng.choice([m for m in ('euclidean', 'cityblock', 'chebyshev') if m != case['dist_func']])
            try:
                V = vc.build(case)
                _ = V.experimental, V.bin_count
                if rng.random() < 0.5:
                    V.set_dist_function(other)
                else:
                    V.dist_function = other
            except Exception as e:
                ctx.count('living_rejected', type(e).__name__)
                continue
            nliving += 1
            ctx.count('living_instance', 'custom-edges' if case.get('bins') is not None else case['bin_func'])
            vc.eval_structure_case(ctx, model, dict(case, dist_func=other, living={'metric_before': case['dist_func']}), prop='C01', V=V)
        # estimator functions against their exact Q models
        vc.check_estimators(ctx, model, 60 if not ctx.thorough() else 400)
        # in-Coq golden subset (same definitions the theorems speak about, no extraction)
        vc.run_golden(ctx, coq, model)
        if ctx.thorough():
            rc, out, dt = coq.coqchk()
            ctx.extra['coqchk'] = {'rc': rc, 'seconds': round(dt, 1), 'tail': out[-1500:]}
            if rc != 0:
                coq.broken.append({'kind': 'proof', 'file': 'Properties/C01.v', 'lemma': 'coqchk', 'error': out[-400:]})
    finally:
        model.close()
    ctx.extra['rule'] = ('cases = corpus + seeded random (point-set kind x dim x n x estimator x binning x maxlag form x metric); '
                         'non-trivial = at least two non-empty lag classes; distinct by hash of the full case')
    return core.finish(ctx, coq, vc.TRUSTED_STRUCT, vc.ASSUME_STRUCT)
