"""C06 - changing parameters in place is equivalent to building a fresh variogram.

The model (Model/VarioSM.v) predicts for every read of a history whether the value is computed from the
current settings (validity bit) and what the current settings are; the harness runs the history on a real
Variogram / DirectionalVariogram, builds a fresh instance from the model's current settings and compares."""
import itertools, warnings
import numpy as np
import core, gen, vario_common as vc
warnings.filterwarnings('ignore')
from skgstat import Variogram, DirectionalVariogram, MetricSpace

METRICS = ['euclidean', 'cityblock', 'chebyshev']
ESTS = ['matheron', 'cressie', 'dowd']
MODELS = ['spherical', 'exponential', 'gaussian', 'stable', 'spherical+gaussian']
FITM = ['trf', 'lm', 'ml']
SIGMA = [None, 'linear', 'sqrt']
AUTO = ['sturges', 'scott', 'sqrt']
REL = [0.3, 0.5, 0.7]
AZ = [0, 45, 90, -60]
TOL = [45, 90, 180, 22.5]
BW = ['q33', 'q50', 'q80', 6.0]      # a quantile of the distances or an absolute width
DMODEL = ['compass', 'triangle']

READS = {20: 'bins', 21: 'n_lags', 22: 'bin_count', 23: 'experimental', 24: 'parameters'}


class World:
    def __init__(self, rng, directional, raw=False):
        self.directional = directional
        self.raw = raw            # raw coordinates + absolute maxlag: the truncated (sparse) distance path
        _, c = gen.point_set(rng, n=rng.randint(22, 30), dim=2, kind='dyadic')
        if directional:
            c = c * np.array([4.0, 1.0])        # elongated area: the largest selected distance depends on the azimuth
        self.c = c
        self.vals = [np.array([rng.randint(-512, 512) / 32.0 + 0.05 * (c[i, 0] + k * c[i, 1]) for i in range(len(c))]) for k in range(4)]
        # the fourth value set has two columns: the instance becomes a cross-variogram (and an ordinary one again afterwards)
        self.vals[3] = np.column_stack((self.vals[3], self.vals[0] * 0.5 + 1.0))
        self.ms = {}
        from scipy.spatial.distance import pdist
        dm = float(min(pdist(c, m).max() for m in METRICS))
        self.abs = [round(dm * f * 4) / 4.0 + 0.125 for f in (0.4, 0.6, 0.8)]
        self.edges = [np.array(sorted(set(round(dm * f * 8) / 8.0 + 0.0625 for f in fr))) for fr in ((0.15, 0.3, 0.5, 0.7), (0.2, 0.45, 0.9), (0.1, 0.25, 0.4, 0.55, 0.8))]

    def space(self, d):
        if self.directional or self.raw:
            return self.c
        return MetricSpace(self.c.copy(), METRICS[d])

    def maxlag(self, ml):
        t = ml[0]
        return [None, 'median', 'mean', REL[ml[1] % 3] if t == 3 else None, self.abs[ml[1] % 3] if t == 4 else None, float(self.edges[ml[1] % 3].max()) if t == 5 else None][t]

    def kwargs(self, S):
        d, va, nl, ml, bf, e, m, nu, fm, sg, az, tl, bw, dm = S
        kw = dict(estimator=ESTS[e % 3], model=MODELS[m % len(MODELS)], use_nugget=bool(nu), fit_method=FITM[fm % 3], fit_sigma=SIGMA[sg % 3], dist_func=METRICS[d % 3])
        if bf[0] == 5:
            kw['bin_func'] = self.edges[bf[1] % 3].copy()
        else:
            kw['bin_func'] = ['even', 'uniform', 'kmeans', 'ward', AUTO[bf[1] % 3] if bf[0] == 4 else None][bf[0]]
            kw['maxlag'] = self.maxlag(ml)
            kw['n_lags'] = nl[1] if nl[0] == 0 else (len(self.edges[nl[1] % 3]) if nl[0] == 2 else 10)
        if self.directional:
            kw.update(azimuth=AZ[az % 4], tolerance=TOL[tl % 4], bandwidth=BW[bw % 4], directional_model=DMODEL[dm % 2])
        return kw

    def fresh(self, S):
        kw = self.kwargs(S)
        cls = DirectionalVariogram if self.directional else Variogram
        return cls(self.space(S[0] % 3), self.vals[S[1] % 4], **kw)

    def apply(self, V, op):
        t = op[0]
        a = op[1] if len(op) > 1 else None
        if t == 0:
            V.n_lags = int(a)
        elif t == 1:
            V.maxlag = self.maxlag(a)
        elif t == 2:
            V.bin_func = self.edges[a[1] % 3].copy() if a[0] == 5 else ['even', 'uniform', 'kmeans', 'ward', AUTO[a[1] % 3] if a[0] == 4 else None][a[0]]
        elif t == 3:
            V.bins = self.edges[a % 3].copy()
        elif t == 4:
            V.estimator = ESTS[a % 3]
        elif t == 5:
            V.model = MODELS[a % len(MODELS)]
        elif t == 6:
            V.use_nugget = bool(a)
        elif t == 7:
            V.fit_method = FITM[a % 3]
        elif t == 8:
            V.fit_sigma = SIGMA[a % 3]
        elif t == 9:
            V.dist_function = METRICS[a % 3]
        elif t == 10:
            V.values = self.vals[a % 4]
        elif t == 11:
            V.azimuth = AZ[a % 4]
        elif t == 12:
            V.tolerance = TOL[a % 4]
        elif t == 13:
            V.bandwidth = BW[a % 4]
        elif t == 14:
            V.set_directional_model(DMODEL[a % 2])

    @staticmethod
    def read(V, t):
        try:
            if t == 20:
                arr = V.bins
                res = np.array(arr, float).tolist()
                try:
                    arr *= 0.5          # a caller-side write into the returned array: the instance keeps its own edges
                except Exception:
                    pass
                return ('ok', res)
            if t == 21:
                return ('ok', int(V.n_lags))
            if t == 22:
                return ('ok', np.asarray(V.bin_count).tolist())
            if t == 23:
                return ('ok', np.asarray(V.experimental, float).tolist())
            if t == 24:
                p = V.parameters
                return ('ok', [float(x) if x is not None else None for x in p])
        except Exception as e:
            return ('raise', type(e).__name__)


def same(a, b):
    if a[0] != b[0]:
        return False
    if a[0] == 'raise':
        return True
    x, y = a[1], b[1]
    if isinstance(x, int) or isinstance(y, int):
        return x == y
    if len(x) != len(y):
        return False
    return all((p is None and q is None) or (p is not None and q is not None and gen.close(p, q, 1e-8, 1e-10)) for p, q in zip(x, y))


def setter_alphabet(rng, directional):
    ops = [[0, 5], [0, 8], [1, [0]], [1, [1]], [1, [3, 1]], [1, [4, 1]], [2, [0]], [2, [1]], [2, [4, 0]], [2, [5, 0]], [3, 1],
           [4, 1], [4, 2], [5, 1], [5, 3], [6, True], [6, False], [7, 1], [7, 2], [8, 1], [8, 2], [9, 1], [9, 2], [10, 1], [10, 2], [10, 3], [10, 0]]
    if directional:
        ops += [[11, 1], [11, 2], [12, 1], [12, 3], [13, 1], [13, 3], [14, 1]]
    return ops


def wire_settings(S):
    return [S[0], S[1], S[2], S[3], S[4], S[5], S[6], bool(S[7]), S[8], S[9], S[10], S[11], S[12], S[13]]


def run_history(ctx, model, world, S0, ops, record=True):
    """returns list of problems for this history (each a dict), using the model's trace"""
    trace = model('vario_run', wire_settings(S0), [[20 + 2], [24]] + ops)      # the constructor preprocesses and fits
    trace = trace[2:]
    if any(not t[1] for t in trace):
        return 'inadmissible', []
    try:
        V = world.fresh(S0)
    except Exception as e:
        return 'rejected:' + type(e).__name__, []
    probs = []
    for k, (op, t) in enumerate(zip(ops, trace)):
        cur, adm, safe, valid = t
        if op[0] < 20:
            try:
                world.apply(V, op)
            except Exception as e:
                return 'setter-raised:' + type(e).__name__, probs
            continue
        got = world.read(V, op[0])
        S = [cur[0], cur[1], cur[2], cur[3], cur[4], cur[5], cur[6], cur[7], cur[8], cur[9], cur[10], cur[11], cur[12], cur[13]]
        try:
            F = world.fresh(S)
            want = world.read(F, op[0])
        except Exception as e:
            # the constructor fits eagerly, the mutated instance lazily: a failing fit only compares for 'parameters'
            if op[0] != 24:
                ctx.count('fresh_constructor_raised', type(e).__name__)
                continue
            want = ('raise', type(e).__name__)
        eq = same(got, want)
        if valid and not eq:
            probs.append({'kind': 'oracle', 'index': k, 'read': READS[op[0]], 'got': got, 'fresh': want, 'settings': S})
        elif not valid and eq:
            probs.append({'kind': 'model-pessimistic', 'index': k, 'read': READS[op[0]], 'settings': S})
        elif not valid and not eq:
            probs.append({'kind': 'known-stale', 'index': k, 'read': READS[op[0]], 'got': got, 'fresh': want, 'settings': S})
    return 'ok', probs


def shrink(ctx, model, world, S0, ops, pred):
    ops = list(ops)
    changed = True
    while changed and len(ops) > 1:
        changed = False
        for i in range(len(ops) - 1):
            cand = ops[:i] + ops[i + 1:]
            st, pr = run_history(ctx, model, world, S0, cand)
            if st == 'ok' and any(pred(p) for p in pr):
                ops, changed = cand, True
                break
    return ops


def run(ctx, replay=None):
    coq = core.Coq('C06')
    coq.build()
    model = core.Model()
    rng = ctx.rng
    try:
        histories = []
        for directional, raw in ((False, False), (True, False), (False, True)):
            world = World(rng, directional, raw)
            S0s = []
            for _ in range(2 if not ctx.thorough() else 6):
                S0s.append([rng.randrange(3) if not directional else 0, rng.randrange(4), [0, rng.choice([4, 6, 10])], rng.choice([[0], [1], [3, 1], [4, 2]]),
                            rng.choice([[0], [0], [1], [4, 1]]), rng.randrange(3), rng.randrange(4), rng.choice([False, True]), 0, rng.randrange(3),
                            rng.randrange(4) if directional else 0, rng.randrange(4) if directional else 0, rng.randrange(3) if directional else 0, rng.randrange(2) if directional else 0])
            if directional:
                # the start configuration of the exhaustive part: a search area whose bandwidth matters (triangle, narrow tolerance)
                S0s[0][13] = 1
                S0s[0][11] = rng.choice([0, 1, 3])
            for S0 in S0s:
                if S0[4][0] == 4:
                    S0[2] = [1]
                if raw:
                    S0[3] = [4, rng.randrange(3)]          # absolute maxlag: sparse MetricSpace
                    S0[0] = 0
            alpha = setter_alphabet(rng, directional)
            if raw:
                # the distance data itself is truncated at the constructor's maxlag: maxlag / user edges are left alone
                alpha = [o for o in alpha if o[0] not in (1, 3) and not (o[0] == 2 and o[1][0] == 5)]
            reads = [[20], [21], [22], [23], [24]]
            # exhaustive: every setter followed by every read; every ordered pair of setters followed by one read (first start configuration)
            S0 = S0s[0]
            for a in alpha:
                histories.append((world, S0, [a] + reads, 'exh1'))
            pairs = list(itertools.product(alpha, alpha))
            must = []
            if not ctx.thorough():
                rng.shuffle(pairs)
                # always present: every assignment before / after a change of the distances (metric), which makes the instance
                # re-resolve the settings it remembers "as passed" (relative maxlag, quantile bandwidth, derived n_lags)
                must = [(a, b) for a, b in pairs if (a[0] == 9) != (b[0] == 9) and (a[0] == 9 and a[1] == 1 or b[0] == 9 and b[1] == 1)] if not raw else []
                # ... and every fit method followed by / following a change of the weights or the nugget setting
                must += [(a, b) for a, b in pairs if (a, b) not in must and ((a[0] == 7 and b[0] in (6, 8)) or (a[0] in (6, 8) and b[0] == 7))]
                rest = [pq for pq in pairs if pq not in must]
                pairs = must + rest[: (120 if not directional else 60) if not raw else 40]
            for a, b in pairs:
                histories.append((world, S0, [a, rng.choice(reads), b, [24], [22], [23], [20], [21]], 'exh2'))
                if not ctx.thorough() and (a[0] == 7 or b[0] == 7) and (a, b) in must:
                    # a fit between the two assignments (the parameters are read): stale coefficients need one to exist
                    histories.append((world, S0, [a, [24], b, [24], [21]], 'exh2'))
            # random histories up to length 8 (12), reads interleaved
            nr = (60 if not raw else 30) if not ctx.thorough() else 1000
            for _ in range(nr):
                S0r = rng.choice(S0s)
                L = rng.randint(3, 8 if not ctx.thorough() else 12)
                ops = []
                for _k in range(L):
                    ops.append(rng.choice(alpha) if rng.random() < 0.6 else rng.choice(reads))
                ops.append(rng.choice(reads))
                histories.append((world, S0r, ops, 'random'))
        for world, S0, ops, kind in histories:
            case = {'directional': world.directional, 'raw': world.raw, 'S0': S0, 'ops': ops, 'kind': kind}
            st, probs = run_history(ctx, model, world, S0, ops)
            ctx.count('history', kind + ('/dir' if world.directional else '') + ('/raw' if world.raw else ''))
            ctx.count('status', st)
            if st == 'inadmissible':
                # drop inadmissible operations one by one (they have no defined meaning)
                for _try in range(6):
                    tr = model('vario_run', wire_settings(S0), [[22], [24]] + ops)[2:]
                    bad = [i for i, t in enumerate(tr) if not t[1]]
                    if not bad:
                        break
                    ops = ops[:bad[0]] + ops[bad[0] + 1:]
                case['ops'] = ops
                st, probs = run_history(ctx, model, world, S0, ops)
                ctx.count('status_after_repair', st)
            ctx.disagreements_checked += 1
            nreads = sum(1 for o in ops if o[0] >= 20)
            nsets = sum(1 for o in ops if o[0] < 20)
            for p in probs:
                if p['kind'] == 'oracle':
                    small = shrink(ctx, model, world, S0, ops, lambda q: q['kind'] == 'oracle' and q['read'] == p['read'])
                    names = [o if o[0] >= 20 else o for o in small]
                    ctx.problem('oracle', 'after the assignments %r the read of %s differs from a freshly constructed instance with the same settings' % (small, p['read']),
                                dict(case, ops=small), {'got': p['got'], 'fresh': p['fresh'], 'settings': p['settings']}, {'what': 'stale-after-setter', 'read': p['read'], 'last_setter': max([o[0] for o in small if o[0] < 20] or [-1])})
                    break
                if p['kind'] == 'model-pessimistic':
                    ctx.count('model_pessimistic')      # the model says "stale", the implementation happens to agree with fresh (same fit): not an alarm
                if p['kind'] == 'known-stale':
                    ctx.problem('oracle', 'use_nugget assigned after a fit: %s still reports the coefficients of the old setting' % p['read'], dict(case),
                                {'got': p['got'], 'fresh': p['fresh']}, {'what': 'use_nugget-keeps-cof'})
                    break
            ctx.case_done(case, st == 'ok' and nsets >= 1 and nreads >= 1)
        vc.run_golden(ctx, coq, model)
    finally:
        model.close()
    ctx.extra['rule'] = ('histories over 23 assignments (29 for the directional class) x 5 reads: every single assignment followed by all reads; ordered pairs of assignments (all in the thorough tier) with reads interleaved; '
                         'random histories to length 8 (12); fresh instances are built from the model-predicted current settings on the same distance data (shared dense MetricSpace); '
                         'non-trivial = at least one assignment and one read, history ran to the end')
    return core.finish(ctx, coq, vc.TRUSTED_STRUCT + ['scipy curve_fit / KMeans determinism (a fresh instance with equal settings must reproduce the numbers)'],
                       ['stamps are abstract setting identifiers; that equal settings give equal results is the determinism of the numerical leaves'])
