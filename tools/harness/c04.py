"""C04 - all views of a fitted variogram describe one and the same function."""
import numpy as np
import core, gen, vario_common as vc, fit_common as fc
from skgstat import Variogram, OrdinaryKriging, models
from skgstat.interfaces.variogram_estimator import VariogramEstimator


def run(ctx, replay=None):
    coq = core.Coq('C04')
    coq.build()
    model = core.Model()
    rng = ctx.rng
    try:
        n = 70 if not ctx.thorough() else 700
        cases = [replay['case']] if replay and replay.get('case') else vc.corpus_cases('C04')
        while len(cases) < n:
            is_sum = rng.random() < 0.25
            mname = rng.choice(fc.SUMS) if is_sum else rng.choice(fc.SINGLE)
            how = rng.choice(['trf', 'trf', 'lm', 'manual_fit', 'manual_kw'])
            if is_sum and how.startswith('manual'):
                how = 'trf'
            nug_given = rng.choice([None, 0.0, 0.375, 2.0])
            cases.append({'seed': rng.randrange(10 ** 6), 'model': mname, 'how': how, 'use_nugget': rng.choice([False, True]), 'fit_sigma': rng.choice([None, None, 'linear', 'sqrt', 'exp']),
                          'n_lags': rng.randint(6, 12), 'toggle': rng.random() < 0.3, 'zero_nugget_to_fit': rng.random() < 0.5, 'manual': {'range': rng.choice([10.0, 25.5, 60.0]), 'sill': rng.choice([1.0, 40.0]), 'nugget': nug_given,
                                                                   'shape': rng.choice([0.5, 1.5, 2.0])}})
        for case in cases:
            import random
            c, v = fc.field(random.Random(case['seed']))
            mname, how = case['model'], case['how']
            ctx.count('model', mname)
            ctx.count('how', how)
            ctx.count('use_nugget', case['use_nugget'])
            ctx.count('nugget_toggled_in_place', bool(case.get('toggle')) and how in ('trf', 'lm'))
            kw = dict(model=mname, n_lags=case['n_lags'], use_nugget=case['use_nugget'], fit_sigma=case['fit_sigma'])
            man = case['manual']
            try:
                if how in ('trf', 'lm') and case.get('toggle'):
                    # the nugget setting is switched on the living instance and the variogram fitted again
                    V = Variogram(c, v, fit_method=how, **dict(kw, use_nugget=not case['use_nugget']))
                    _ = V.parameters
                    V.use_nugget = case['use_nugget']
                    V.fit(force=True)
                elif how in ('trf', 'lm'):
                    V = Variogram(c, v, fit_method=how, **kw)
                elif how == 'manual_kw':
                    mk = dict(fit_range=man['range'], fit_sill=man['sill'])
                    if man['nugget'] is not None:
                        mk['fit_nugget'] = man['nugget']
                    if mname in ('stable', 'matern'):
                        mk['fit_shape'] = man['shape']
                    V = Variogram(c, v, fit_method='manual', **kw, **mk)
                    if case.get('zero_nugget_to_fit') and man['nugget']:
                        # the nugget is switched off again on the living instance and an explicit 0 handed to fit()
                        _ = V.parameters
                        V.use_nugget = False
                        V.fit(nugget=0.0)
                else:
                    V = Variogram(c, v, fit_method='trf', **kw)
                    fk = dict(range=man['range'], sill=man['sill'])
                    if man['nugget'] is not None:
                        fk['nugget'] = man['nugget']
                    if mname in ('stable', 'matern'):
                        fk['shape'] = man['shape']
                    V.fit(method='manual', **fk)
                cof = [float(x) for x in V.cof]
                d = V.describe()
                par = [float(x) for x in V.parameters]
                use_n = bool(V.use_nugget)
            except Exception as e:
                ctx.count('rejected', type(e).__name__ + ':' + str(e)[:40])
                ctx.case_done(case, False)
                continue
            if not np.all(np.isfinite(cof)):
                ctx.count('nonfinite_cof')
                ctx.case_done(case, False)
                continue
            lags = np.array([0.0, 1e-6, 0.5, 3.0, 7.25, 15.0, 33.0, 60.0, 120.0, 1000.0] + [rng.uniform(0, 80) for _ in range(8)])
            fm = np.asarray(V.fitted_model(lags), float)
            ctx.disagreements_checked += 1
            is_sum = '+' in mname
            sig = {'what': 'views', 'how': how}
            views = {}
            try:
                views['transform'] = np.asarray(V.transform(lags), float)
                x, y = V.data(n=25)
                views['data'] = (np.asarray(x, float), np.asarray(y, float))
                if not is_sum:
                    ok = OrdinaryKriging(V, min_points=2, max_points=5)
                    views['kriging'] = np.asarray(ok.gamma_model(lags), float)
                    views['rebuilt'] = np.asarray(Variogram.fitted_model_function(**d)(lags), float)
                    fpar = getattr(models, mname)
                    views['parameters'] = np.asarray(fpar(lags, *par), float)
            except Exception as e:
                ctx.problem('oracle', 'a view of the fitted variogram raises: %s' % type(e).__name__, case, {'error': str(e)[:200]}, sig)
                ctx.case_done(case, True)
                continue
            tol = lambda a, b: all(gen.close(p, q, 1e-9, 1e-10) for p, q in zip(a, b))
            for name, val in views.items():
                if name == 'data':
                    xs, ys = val
                    ref = np.asarray(V.fitted_model(xs), float)
                    if not tol(ys, ref):
                        ctx.problem('oracle', 'data() does not evaluate the fitted model at its lags', case, {'data': ys[:5].tolist(), 'fitted_model': ref[:5].tolist()}, dict(sig, view='data'))
                elif not tol(val, fm):
                    k = int(np.argmax(np.abs(np.asarray(val) - fm)))
                    ctx.problem('oracle', 'view %s differs from the fitted model (lag %r: %r vs %r)' % (name, float(lags[k]), float(val[k]), float(fm[k])), case,
                                {'cof': cof, 'parameters': par, 'describe_nugget': d.get('nugget'), 'use_nugget': use_n}, dict(sig, view=name))
            # the scikit-learn wrapper (automatic fits only: it cannot take manual parameters)
            if how in ('trf', 'lm') and not is_sum:
                try:
                    E = VariogramEstimator(estimator='matheron', model=mname, n_lags=case['n_lags'], use_nugget=case['use_nugget'], fit_method=how, fit_sigma=case['fit_sigma']).fit(c, v)
                    pe = np.asarray(E.predict(lags), float)
                    pf = np.asarray(E.variogram.fitted_model(lags), float)
                    if not tol(pe, pf) or not tol(pe, fm):
                        ctx.problem('oracle', 'VariogramEstimator.predict differs from the fitted model of an equally configured variogram', case, {'predict': pe[:5].tolist(), 'fitted': fm[:5].tolist()}, dict(sig, view='estimator'))
                    if not (gen.close(E.range_, d['effective_range'], 1e-9) and gen.close(E.sill_, d['sill'], 1e-9) and gen.close(E.nugget_, d['nugget'], 1e-9, 1e-12)):
                        ctx.problem('oracle', 'VariogramEstimator reports other parameters than describe()', case, None, dict(sig, view='estimator-params'))
                except Exception as e:
                    ctx.count('estimator_rejected', type(e).__name__)
            # reported parameters = what the function uses; nugget disabled => 0 and model(0) = 0
            if not is_sum:
                k = fc.k_of(mname)
                mp = [float(x) for x in model('parameters', k, use_n, cof, golden=(len(model.golden) < 30))]
                mk = [float(x) for x in model('krige_args', k, use_n, cof, golden=(len(model.golden) < 30))]
                if not tol(mp, par) or len(mp) != len(par):
                    ctx.problem('correspondence', 'parameters differ from Fit.parameters', case, {'model': mp, 'impl': par, 'cof': cof})
                want_d = [d['effective_range'], d['sill']] + ([d['smoothness']] if mname == 'matern' else []) + ([d['shape']] if mname == 'stable' else []) + [d['nugget']]
                if not tol(want_d, par):
                    ctx.problem('oracle', 'describe() and parameters report different values', case, {'describe': want_d, 'parameters': par})
                if not use_n and (d['nugget'] != 0 or par[-1] != 0 or float(V.fitted_model(0.0)) != 0.0):
                    neg = how == 'lm' and float(d['effective_range']) < 0
                    ctx.problem('oracle', 'nugget disabled but the reported nugget / the model at lag 0 is not 0', case, {'nugget': d['nugget'], 'model0': float(V.fitted_model(0.0)), 'cof': cof},
                                {'what': 'nugget-disabled', 'fit': 'lm-negative-range' if neg else how})
            else:
                if not use_n and float(V.fitted_model(0.0)) != 0.0:
                    # the unbounded 'lm' method can return a negative range: the bounded-range models then return their sill at lag 0
                    neg = how == 'lm' and any(float(d.get('effective_range_%d' % (i_ + 1), 1.0)) < 0 for i_ in range(len(mname.split('+'))))
                    ctx.problem('oracle', 'nugget disabled but the sum model at lag 0 is not 0', case, {'model0': float(V.fitted_model(0.0)), 'cof': cof},
                                {'what': 'nugget-disabled', 'fit': 'lm-negative-range' if neg else how})
                names = mname.split('+')
                rep = 0.0
                ok_sum = True
                pos = 0
                for i_, nme in enumerate(names):
                    kk = fc.k_of(nme)
                    blk = par[pos: pos + kk + 1]
                    pos += kk + 1
                    if i_ < len(names) - 1 and blk[-1] != 0:
                        ctx.problem('oracle', 'a non-last component of the sum reports a nugget', case, {'parameters': par}, {'what': 'sum-nugget-slot'})
                        ok_sum = False
                    try:
                        rep = rep + np.asarray(getattr(models, nme)(lags, *blk), float)
                    except ZeroDivisionError:
                        ok_sum = False
                if ok_sum and not tol(rep, fm):
                    ctx.problem('oracle', 'the parameters reported for a sum of models do not reproduce the fitted function', case, {'parameters': par, 'cof': cof}, {'what': 'sum-parameters'})
            # metrics (no empty lag classes)
            exp = np.asarray(V.experimental, float)
            if not np.any(np.isnan(exp)):
                mod = np.asarray(V.fitted_model(np.asarray(V.bins, float)), float)
                res = mod - exp
                want = {'mse': float(np.mean(res ** 2)), 'rmse': float(np.sqrt(np.mean(res ** 2))), 'mae': float(np.mean(np.abs(res))), 'rss': float(np.sum(res ** 2)),
                        'nrmse': float(np.sqrt(np.mean(res ** 2)) / np.mean(exp))}
                for nm, w in want.items():
                    g = float(getattr(V, nm))
                    if not gen.close(g, w, 1e-9, 1e-12):
                        ctx.problem('oracle', 'metric %s = %r differs from its documented definition %r' % (nm, g, w), case, None, {'what': 'metric', 'metric': nm})
                r_ = np.asarray(V.model_residuals, float)
                if not (tol(r_, res) or tol(r_, -res)):
                    ctx.problem('oracle', 'residuals are not model minus experimental values at the lag edges', case, None, {'what': 'metric', 'metric': 'residuals'})
            ctx.case_done(case, True)
        vc.run_golden(ctx, coq, model)
    finally:
        model.close()
    ctx.extra['rule'] = ('smooth random fields (30-60 points) x 6 single models + 4 sums x use_nugget x fit (trf, lm, manual via fit() arguments, manual via fit_* keywords; nugget none/0/positive) x fit_sigma; '
                         'every view evaluated at 18 lags incl. 0; non-trivial = a fitted configuration whose views were compared')
    return core.finish(ctx, coq, fc.TRUSTED, ['the optimiser result enters as the coefficient vector the implementation produced'])
