"""C18 - results are reproducible, instances isolated, caller arrays never modified."""
import os, sys, json, pickle, subprocess, random, warnings
import numpy as np
import core, gen, vario_common as vc
warnings.filterwarnings('ignore')
from skgstat import Variogram, DirectionalVariogram, OrdinaryKriging, MetricSpace

CHILD = r'''
import sys, json, warnings, numpy as np
warnings.filterwarnings('ignore')
np.random.seed(int(sys.argv[2]))
from skgstat import Variogram
spec = json.load(open(sys.argv[1]))
c = np.array(spec['coords']); v = np.array(spec['values'])
out = {}
V = Variogram(c, v, bin_func='kmeans', n_lags=spec['n_lags'], fit_method=None)
out['kmeans_bins'] = np.asarray(V.bins).tolist(); out['kmeans_exp'] = np.asarray(V.experimental).tolist()
V = Variogram(c, v, samples=spec['samples'], binning_random_state=spec['seed'], n_lags=spec['n_lags'], fit_method=None)
out['sample_exp'] = np.asarray(V.experimental).tolist(); out['sample_count'] = np.asarray(V.bin_count).tolist()
V = Variogram(c, v, n_lags=spec['n_lags'], fit_method='manual', fit_range=spec['range'], fit_sill=spec['sill'])
out['cv'] = float(V.cross_validate(n=spec['cv_n'], seed=spec['seed']))
print('RESULT ' + json.dumps(out))
'''


def snapshot(V):
    out = {'bins': np.asarray(V.bins, float).copy(), 'count': np.asarray(V.bin_count).copy(), 'exp': np.asarray(V.experimental, float).copy(),
           'values': np.asarray(V.values, float).copy(), 'coordinates': np.asarray(V.coordinates, float).copy()}
    try:
        out['par'] = np.array([np.nan if p is None else p for p in V.parameters], float)
    except Exception:
        out['par'] = np.array([])
    return out


def same_snap(a, b):
    for k in a:
        x, y = np.asarray(a[k], float), np.asarray(b[k], float)
        if x.shape != y.shape or not np.allclose(x, y, rtol=1e-9, atol=1e-12, equal_nan=True):
            return k
    return None


def run(ctx, replay=None):
    coq = core.Coq('C18')
    coq.build()
    model = core.Model()
    rng = ctx.rng
    try:
        n = 60 if not ctx.thorough() else 600
        for t in range(n):
            kind, c = gen.point_set(rng, n=rng.randint(15, 30), dim=2, kind=rng.choice(['dyadic', 'lattice', 'clustered']))
            _, idx = np.unique(c, axis=0, return_index=True)
            c = c[np.sort(idx)]
            v = np.array([rng.randint(-256, 256) / 16.0 + 0.1 * c[i, 0] for i in range(len(c))])
            cls = rng.choice(['Variogram', 'Variogram', 'Directional', 'Cross', 'Sampled'])
            form_c = rng.choice(['ndarray', 'ndarray', 'list', 'metricspace'])
            form_v = rng.choice(['ndarray', 'ndarray', 'list'])
            bf = rng.choice(['even', 'uniform', 'custom'])
            case = {'class': cls, 'coords_as': form_c, 'values_as': form_v, 'bin_func': bf, 'n': len(c)}
            for k_, v_ in case.items():
                ctx.count(k_, v_)
            c_in = c.copy() if form_c != 'list' else c.tolist()
            v_in = (np.column_stack((v, v[::-1])) if cls == 'Cross' else v.copy())
            if cls == 'Cross' and form_v != 'list' and rng.random() < 0.5:
                v_in = np.array([v, v[::-1]]).T          # column-major table (transposed view): column slices are contiguous
                case['values_layout'] = 'F'
                ctx.count('values_layout', 'F')
            v_in = v_in if form_v != 'list' else v_in.tolist()
            c0 = np.array(c_in, float).copy() if form_c != 'metricspace' else c.copy()
            v0 = np.array(v_in, float).copy()
            edges_in = np.linspace(2, float(np.ptp(c)) * 0.9, 5)
            kw = dict(n_lags=rng.randint(4, 8), maxlag=rng.choice([None, 'median', 0.7]))
            if bf == 'custom':
                kw = dict(bin_func=edges_in)
            else:
                kw['bin_func'] = bf
            try:
                if cls == 'Directional':
                    if form_c == 'metricspace':
                        c_in = c.copy()
                    V = DirectionalVariogram(c_in, v_in, azimuth=30, tolerance=90, **kw)
                else:
                    arg_c = MetricSpace(c.copy(), 'euclidean') if form_c == 'metricspace' else c_in
                    if cls == 'Sampled' and form_c != 'metricspace':
                        V = Variogram(arg_c, v_in, samples=0.7, binning_random_state=rng.choice([0, 7, 42]), **kw)       # seeded random sub-sample of the pairs
                    else:
                        V = Variogram(arg_c, v_in, **kw)
                snap = snapshot(V)
            except Exception as e:
                ctx.count('rejected', type(e).__name__ + ':' + str(e)[:40])
                ctx.case_done(case, False)
                continue
            ctx.disagreements_checked += 1
            # construction and reads must not have modified the caller's arrays
            if form_c != 'metricspace' and not np.array_equal(np.array(c_in, float), c0):
                ctx.problem('oracle', 'construction / reads modified the caller\'s coordinate array', case, None, {'what': 'caller-array-modified', 'array': 'coordinates'})
            if not np.array_equal(np.array(v_in, float), v0):
                ctx.problem('oracle', 'construction / reads modified the caller\'s value array', case, None, {'what': 'caller-array-modified', 'array': 'values'})
            # memory sharing between caller arrays and what the instance computes from
            shares = []
            if isinstance(c_in, np.ndarray) and np.shares_memory(c_in, V._X.coords):
                shares.append('coordinates')
            if isinstance(v_in, np.ndarray) and (np.shares_memory(v_in, V._values) or (V._co_variable is not None and np.shares_memory(v_in, V._co_variable))):
                shares.append('values')
            b1 = V.bins
            if np.shares_memory(b1, V._bins):
                shares.append('returned-bins')
            if shares:
                ctx.problem('oracle', 'the instance shares memory with arrays the caller can write: %s' % shares, case, None, {'what': 'shares-memory', 'arrays': ','.join(shares)})
            # a history of caller-side writes / clones / pickles interleaved with observations
            ops, hist = [[0, 0, 1], [5]], ['construct', 'observe']
            L = rng.randint(3, 7)
            clone = None
            next_loc = 4
            returned = []
            for _k in range(L):
                o = rng.choice(['write_values', 'write_coords', 'get_bins', 'write_bins', 'clone', 'mutate_clone', 'pickle', 'read_scores', 'observe', 'observe'])
                try:
                    if o == 'write_values' and isinstance(v_in, np.ndarray):
                        v_in[...] = 0.0 if rng.random() < 0.5 else v_in * 3 + 1
                        ops.append([2, 1, rng.randint(1, 9)])
                    elif o == 'write_coords' and isinstance(c_in, np.ndarray) and cls != 'Directional' or (o == 'write_coords' and isinstance(c_in, np.ndarray)):
                        c_in[...] = c_in[::-1].copy() * 0.5
                        ops.append([2, 0, rng.randint(1, 9)])
                    elif o == 'get_bins':
                        returned.append((V.bins, next_loc))
                        ops.append([3])
                        next_loc += 1
                    elif o == 'write_bins' and returned:
                        arr, l = returned[-1]
                        arr[...] = 0.0
                        ops.append([2, l, 0])
                    elif o == 'clone':
                        clone = V.clone()
                        clone.preprocessing(force=True)          # the copy recomputes from what it holds: same results
                        if same_snap(snap, snapshot(clone)):
                            ctx.problem('oracle', 'clone() does not reproduce the observable results (%s)' % same_snap(snap, snapshot(clone)), case, None, {'what': 'clone-differs'})
                        ops.append([4])
                        next_loc += 2
                    elif o == 'mutate_clone' and clone is not None:
                        clone.n_lags = 3
                        clone.values = np.asarray(clone.values) * 0 + np.arange(len(np.asarray(clone.values)))
                        clone.estimator = 'cressie'
                        if clone._bins is not None:
                            clone._bins[...] = 1.0
                        ops.append([2, next_loc - 1, 1])
                    elif o == 'pickle':
                        P = pickle.loads(pickle.dumps(V))
                        P.preprocessing(force=True)
                        if same_snap(snap, snapshot(P)):
                            ctx.problem('oracle', 'a pickle round trip does not reproduce the observable results (%s)' % same_snap(snap, snapshot(P)), case, None, {'what': 'pickle-differs'})
                        ops.append([4])
                        next_loc += 2
                    elif o == 'read_scores':
                        # reads of derived quantities are reads: they must not change what the instance holds
                        for attr in rng.sample(['aic', 'bic', 'rmse', 'mae', 'nrmse', 'r', 'residuals', 'describe', 'data', 'model_deviations'], 4):
                            try:
                                val = getattr(V, attr)
                                if callable(val):
                                    val()
                            except Exception:
                                ctx.count('score_read_rejected', attr)
                        ops.append([5])
                        diff = same_snap(snap, snapshot(V))
                        hist.append(o)
                        if diff:
                            ctx.problem('oracle', 'after the history %s (reads of derived scores) the %s of the instance changed' % (hist, diff), dict(case, history=hist), None, {'what': 'read-mutates', 'changed': diff})
                            break
                        continue
                    elif o == 'observe':
                        # force re-computation from the arrays the instance holds
                        V.preprocessing(force=True)
                        V.cof = None
                        diff = same_snap(snap, snapshot(V))
                        ops.append([5])
                        hist.append(o)
                        if diff:
                            ctx.problem('oracle', 'after the caller-side history %s the %s of the instance changed' % (hist, diff), dict(case, history=hist), None, {'what': 'interference', 'changed': diff})
                            break
                        continue
                    else:
                        continue
                    hist.append(o)
                except Exception as e:
                    ctx.count('history_op_rejected', o + ':' + type(e).__name__)
            # the model's prediction for the same history: every observation equals the contents at construction
            mo = model('alias_run', [[0, 7], [1, 9], [2, 0], [3, 0]], 4, ops, golden=(len(model.golden) < 15))
            obs = [o for o in mo if o is not None]
            if any(o != obs[0] for o in obs):
                ctx.problem('correspondence', 'the ownership model predicts interference for a history the implementation survives', case, {'ops': ops})
            ctx.case_done(dict(case, history=hist), len(hist) >= 4)
        # ---- kriging keeps its own copy of the values
        for t in range(10 if not ctx.thorough() else 100):
            kind, c = gen.point_set(rng, n=25, dim=2, kind='dyadic')
            _, idx = np.unique(c, axis=0, return_index=True)
            c = c[np.sort(idx)]
            v = np.array([rng.randint(-256, 256) / 16.0 for _ in range(len(c))])
            V = Variogram(c, v, n_lags=6, fit_method='manual', fit_range=float(np.ptp(c)) / 2, fit_sill=5.0)
            vv = v.copy()
            form = rng.choice(['metricspace', 'arrays'])
            ok = OrdinaryKriging(V, coordinates=MetricSpace(c.copy(), 'euclidean') if form == 'metricspace' else c.copy(), values=vv, min_points=2, max_points=6)
            tx, ty = np.array([c[:, 0].mean(), c[0, 0] + 0.3]), np.array([c[:, 1].mean(), c[0, 1] + 0.2])
            z1 = np.asarray(ok.transform(tx, ty), float)
            vv[...] = 1000.0
            z2 = np.asarray(ok.transform(tx, ty), float)
            ctx.tests['kriging_value_isolation'] = ctx.tests.get('kriging_value_isolation', 0) + 1
            if not np.allclose(z1, z2, equal_nan=True):
                ctx.problem('oracle', 'OrdinaryKriging is affected by later changes to the caller\'s value array (coordinates as %s)' % form, {'form': form}, {'before': z1.tolist(), 'after': z2.tolist()}, {'what': 'kriging-values-alias'})
        # ---- a construction with another metric in between does not change later constructions (no state shared between instances)
        try:
            kind, cm = gen.point_set(rng, n=20, dim=2, kind='dyadic')
            vm = np.array([rng.randint(-256, 256) / 16.0 for _ in range(len(cm))])
            first = snapshot(Variogram(cm, vm, n_lags=5))
            for other_metric in ('mahalanobis', 'seuclidean', 'minkowski'):
                try:
                    _ = Variogram(cm * np.array([3.0, 0.5]) + 1.0, vm, n_lags=5, dist_func=other_metric).experimental
                except Exception:
                    ctx.count('other_metric_rejected', other_metric)
                try:
                    again = snapshot(Variogram(cm, vm, n_lags=5))
                    diff = same_snap(first, again)
                except Exception as e:
                    diff = 'raises %s' % type(e).__name__
                if diff:
                    ctx.problem('oracle', 'after a %s variogram was built in the same process, an identical euclidean construction gives other results (%s)' % (other_metric, diff), {'metric_in_between': other_metric}, None,
                                {'what': 'state-shared-between-instances'})
                    break
            ctx.tests['metric_in_between_runs'] = ctx.tests.get('metric_in_between_runs', 0) + 1
        except Exception as e:
            ctx.count('metric_in_between_rejected', type(e).__name__)
        # ---- seeded clustering on a LARGE input (more than 50 000 pair distances): two constructions under different states of the
        # global generator give the same lag edges
        for t in range(1 if not ctx.thorough() else 3):
            import time as _time
            t0_ = _time.time()
            nbig = 325 + 5 * t
            cb = np.array([[rng.randint(0, 40000) / 64.0, rng.randint(0, 40000) / 64.0] for _ in range(nbig)])
            vb = np.array([rng.randint(-256, 256) / 16.0 for _ in range(nbig)])
            try:
                np.random.seed(1)
                A_ = Variogram(cb, vb, bin_func='kmeans', n_lags=5, fit_method=None)
                ba = np.asarray(A_.bins, float).copy()
                np.random.seed(999)
                _ = np.random.rand(17)
                B_ = Variogram(cb, vb, bin_func='kmeans', n_lags=5, fit_method=None)
                bb = np.asarray(B_.bins, float)
                if len(ba) != len(bb) or not np.allclose(ba, bb, rtol=1e-12, atol=1e-12):
                    ctx.problem('oracle', 'seeded k-means binning of %d points (%d distances) is not reproducible between two constructions' % (nbig, nbig * (nbig - 1) // 2), {'n_points': nbig},
                                {'first': ba.tolist(), 'second': bb.tolist()}, {'what': 'kmeans-large-input'})
                ctx.tests['large_kmeans_runs'] = ctx.tests.get('large_kmeans_runs', 0) + 1
                ctx.extra['large_kmeans_seconds'] = round(_time.time() - t0_, 1)
            except Exception as e:
                ctx.count('large_kmeans_rejected', type(e).__name__)
        # ---- reproducibility: repeated constructions in this process and in fresh processes (different hash seed, different global RNG state)
        nrep = 2 if not ctx.thorough() else 8
        for t in range(nrep):
            kind, c = gen.point_set(rng, n=28, dim=2, kind='dyadic')
            v = [rng.randint(-256, 256) / 16.0 + 0.2 * c[i, 1] for i in range(len(c))]
            spec = {'coords': c.tolist(), 'values': v, 'n_lags': 5, 'samples': 0.6, 'seed': [0, 1306, 42, 7][t % 4], 'range': float(np.ptp(c)) / 2, 'sill': 10.0, 'cv_n': 12}
            path = os.path.join(core.BUILD, 'c18_spec_%d.json' % os.getpid())
            json.dump(spec, open(path, 'w'))
            outs = []
            for hs, gs in (('0', '1'), ('12345', '999')):
                env = dict(os.environ, PYTHONHASHSEED=hs, PYTHONPATH=core.REPO, OMP_NUM_THREADS='1')
                p = subprocess.run(['/venv/bin/python', '-c', CHILD, path, gs], env=env, capture_output=True, text=True, timeout=300)
                line = [l for l in p.stdout.splitlines() if l.startswith('RESULT ')]
                if not line:
                    ctx.count('child_failed')
                    continue
                outs.append(json.loads(line[0][7:]))
            os.remove(path)
            ctx.tests['cross_process_runs'] = ctx.tests.get('cross_process_runs', 0) + len(outs)
            if len(outs) == 2:
                for k in outs[0]:
                    a, b = np.asarray(outs[0][k], float), np.asarray(outs[1][k], float)
                    if a.shape != b.shape or not np.allclose(a, b, rtol=1e-9, atol=1e-12, equal_nan=True):
                        ctx.problem('oracle', 'seeded %s is not reproducible across processes (seed %r)' % (k, spec['seed']), {'spec': {k2: spec[k2] for k2 in ('n_lags', 'samples', 'seed', 'cv_n')}},
                                    {'first': a.tolist()[:6], 'second': b.tolist()[:6]}, {'what': 'not-reproducible', 'quantity': k})
        vc.run_golden(ctx, coq, model)
    finally:
        model.close()
    ctx.extra['rule'] = ('instances of Variogram / DirectionalVariogram / cross-variograms built from ndarray / list / MetricSpace inputs; histories of caller-side writes into the input arrays, into returned lag edges and into clones, '
                         'clone() and pickle round trips, with forced re-evaluation as observation; memory-sharing probes; kriging value isolation; two fresh processes per seeded configuration; non-trivial = history of at least 4 steps')
    return core.finish(ctx, coq, vc.TRUSTED_STRUCT + ['numpy RNGs, scikit-learn KMeans, copy.deepcopy and pickle (executed, not modelled)'],
                       ['the ownership model abstracts arrays to locations; which constructor path copies is tied to the code by the memory-sharing probes and the write histories'])
