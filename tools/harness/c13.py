"""C13 - directional variograms obey the symmetries of direction."""
import math
import numpy as np
from scipy.spatial.distance import pdist
import core, gen, vario_common as vc, dir_common as dc
from skgstat import Variogram, DirectionalVariogram


def triple(V):
    return np.asarray(V.bins, float), np.asarray(V.bin_count), np.asarray(V.experimental, float)


def same(ctx, case, what, a, b, sig):
    (e0, c0, x0), (e1, c1, x1) = a, b
    if len(e0) != len(e1) or not all(gen.close(p, q, 1e-10, 1e-12) for p, q in zip(e0, e1)):
        ctx.problem('oracle', '%s: lag edges differ' % what, case, {'a': e0.tolist(), 'b': e1.tolist()}, sig)
    elif c0.tolist() != c1.tolist():
        ctx.problem('oracle', '%s: pair counts differ' % what, case, {'a': c0.tolist(), 'b': c1.tolist()}, sig)
    elif not all(gen.close(p, q, 1e-9, 1e-12) for p, q in zip(x0, x1)):
        ctx.problem('oracle', '%s: experimental variogram differs' % what, case, {'a': x0.tolist(), 'b': x1.tolist()}, sig)
    else:
        return True
    return False


def run(ctx, replay=None):
    coq = core.Coq('C13')
    coq.build()
    ctx.translations = coq.translated
    rng = ctx.rng
    n = 60 if not ctx.thorough() else 600
    cases = [replay['case']] if replay and replay.get('case') else vc.corpus_cases('C13') + [dc.gen_case(rng, nmax=22) for _ in range(n)]
    for case in cases:
        for k, v in case['tags'].items():
            ctx.count(k, v)
        c = np.array(case['coords'], float)
        v = np.array(case['values'], float)
        has_dups = len(np.unique(c, axis=0)) < len(c)
        cin = c.astype(case['coords_dtype']) if (case.get('coords_dtype') and np.all(c == np.round(c)) and c.min() >= 0) else c
        ctx.count('coords_dtype', str(cin.dtype))
        kw = dict(n_lags=case['n_lags'], estimator=case['estimator'], fit_method='manual', fit_range=1.0, fit_sill=1.0, dist_func=case.get('dist_func', 'euclidean'))
        ctx.count('dist_func', case.get('dist_func', 'euclidean'))
        done = 0
        try:
            # shared explicit edges so that only the selection matters
            dall = pdist(c, case.get('dist_func', 'euclidean'))
            edges = np.linspace(0, float(dall.max()), case['n_lags'] + 1)[1:]
            # (1) tolerance 180, no bandwidth limit (compass) = isotropic variogram
            for az in (case['azimuth'], 0, 90, 180):
                D180 = DirectionalVariogram(cin, v, azimuth=az, tolerance=180, directional_model='compass', bin_func=edges, **kw)
                ISO = Variogram(c, v, bin_func=edges, **kw)
                sig = {'what': 'tolerance-180-vs-isotropic', 'duplicates': bool(has_dups)}
                same(ctx, dict(case, azimuth_used=az), 'tolerance 180 vs the isotropic variogram', triple(D180), triple(ISO), sig)
                done += 1
            # the same for the triangle search area with a bandwidth that cannot exclude any pair (offsets are at most the largest distance)
            wide = 2.5 * float(pdist(c).max())
            T180 = DirectionalVariogram(cin, v, azimuth=case['azimuth'], tolerance=180, directional_model='triangle', bandwidth=wide, bin_func=edges, **kw)
            same(ctx, dict(case, bandwidth_used=wide), 'tolerance 180, triangle with a bandwidth beyond every offset, vs the isotropic variogram', triple(T180), triple(ISO),
                 {'what': 'tolerance-180-vs-isotropic', 'duplicates': bool(has_dups)})
            done += 1
            # the same with derived (even) edges
            D180 = DirectionalVariogram(cin, v, azimuth=case['azimuth'], tolerance=180, directional_model='compass', bin_func='even', **kw)
            ISO = Variogram(c, v, bin_func='even', **kw)
            same(ctx, case, 'tolerance 180 vs the isotropic variogram (derived edges)', triple(D180), triple(ISO), {'what': 'tolerance-180-vs-isotropic', 'duplicates': bool(has_dups)})
            # both ends of the documented azimuth range
            try:
                Em = DirectionalVariogram(cin, v, azimuth=-180, tolerance=case['tolerance'], directional_model='compass', bin_func=edges, **kw)
                Ep = DirectionalVariogram(cin, v, azimuth=180, tolerance=case['tolerance'], directional_model='compass', bin_func=edges, **kw)
                E0 = DirectionalVariogram(cin, v, azimuth=0, tolerance=case['tolerance'], directional_model='compass', bin_func=edges, **kw)
                s0_, n0_, d0_ = dc.geometry(case, azimuth=0, model='compass')
                if not np.any(n0_ & ~d0_):
                    same(ctx, dict(case, azimuth_used=-180), 'azimuth -180 vs azimuth 0', triple(Em), triple(E0), {'what': 'azimuth-180'})
                    same(ctx, dict(case, azimuth_used=180), 'azimuth 180 vs azimuth 0', triple(Ep), triple(E0), {'what': 'azimuth-180'})
                done += 1
            except Exception as e:
                ctx.problem('oracle', 'an azimuth at the end of the documented range [-180, 180] raises %s: %s' % (type(e).__name__, str(e)[:60]), case, None, {'what': 'azimuth-range-end-raises'})
            # (2) azimuth and azimuth +- 180
            az = case['azimuth']
            az2 = az + 180 if az <= 0 else az - 180
            bwv = dc.resolved_bandwidth(case)
            A = dc.build(case, bandwidth=bwv)
            B = dc.build(dict(case, azimuth=az2), bandwidth=bwv)
            sel, near, deg = dc.geometry(case, bandwidth=bwv)
            if not np.any(near & ~deg):
                same(ctx, case, 'azimuth %r vs %r' % (az, az2), triple(A), triple(B), {'what': 'azimuth-180'})
                done += 1
            # (3) rotation of coordinates and azimuth by the same angle (azimuth is counted clockwise)
            for phi in ((90, 180, -90, 36.86989764584402) if case.get('dist_func', 'euclidean') == 'euclidean' else (90, 180, -90)):
                r = math.radians(phi)
                cr = np.column_stack((c[:, 0] * math.cos(r) - c[:, 1] * math.sin(r), c[:, 0] * math.sin(r) + c[:, 1] * math.cos(r)))
                if phi in (90, 180, -90):
                    cr = np.round(cr * 1024) / 1024.0          # exact for dyadic input
                azr = az - phi
                while azr > 180:
                    azr -= 360
                while azr < -180:
                    azr += 360
                selr, nearr, degr = dc.geometry(case, c=cr, azimuth=azr, bandwidth=bwv)
                if np.any(near & ~deg) or np.any(nearr & ~degr):
                    ctx.count('rotation_skipped_boundary')
                    continue
                # explicit edges that do not coincide with any pair distance (rotation perturbs distances by rounding)
                er = np.linspace(0, float(dall.max()) * 1.003, case['n_lags'] + 1)[1:]
                if any(np.any(np.abs(dall - e) <= 1e-9 * max(1.0, e)) for e in er):
                    ctx.count('rotation_skipped_distance_on_edge')
                    continue
                R = dc.build(dict(case, azimuth=azr, coords=cr.tolist()), bandwidth=bwv, bin_func=er, maxlag=None)
                A2 = dc.build(case, bandwidth=bwv, bin_func=er, maxlag=None)
                same(ctx, dict(case, rotation=phi), 'rotating coordinates and azimuth by %r degrees' % phi, triple(A2), triple(R), {'what': 'rotation'})
                done += 1
            # (4) sectors tiling the half circle
            for w in (90, 60, 45, 30, 20):
                k = 180 // w
                azs = [(-90 + w / 2.0 + t * w) for t in range(k)]
                masks, nearany = [], np.zeros(len(dall), bool)
                reused = None
                for a_ in azs:
                    S = DirectionalVariogram(cin, v, azimuth=a_, tolerance=w, directional_model='compass', bin_func=edges, **kw)
                    masks.append(np.asarray(S._direction_mask(), bool))
                    # one instance turned through the sectors reports the same counts / semivariances as the fresh ones
                    if w in (90, 45):
                        if reused is None:
                            reused = DirectionalVariogram(cin, v, azimuth=a_, tolerance=w, directional_model='compass', bin_func=edges, **kw)
                            _ = reused.bin_count, reused.experimental
                        else:
                            reused.azimuth = a_
                        same(ctx, dict(case, sector_width=w, sector_azimuth=a_), 'one instance turned to sector azimuth %r vs a fresh instance' % a_, triple(reused), triple(S), {'what': 'sector-instance-reused'})
                    s_, n_, d_ = dc.geometry(case, azimuth=a_, tolerance=w, model='compass')
                    nearany |= n_
                    deg = d_
                cover = np.any(masks, axis=0)
                miss = np.where(~cover & ~deg & ~nearany)[0]
                if len(miss):
                    i, j = np.triu_indices(len(c), 1)
                    ctx.problem('oracle', 'sectors of width %d tiling the half circle: pair (%d,%d) is selected by no sector' % (w, i[miss[0]], j[miss[0]]), dict(case, sector_width=w), None, {'what': 'sectors-cover'})
                if not np.any(nearany & ~deg):
                    total = sum(int(m.sum()) for m in masks)
                    if total != int((~deg).sum()):
                        ctx.problem('oracle', 'sectors of width %d: the per-sector pair counts (%d) do not add up to the isotropic count of non-degenerate pairs (%d)' % (w, total, int((~deg).sum())),
                                    dict(case, sector_width=w), None, {'what': 'sectors-partition'})
                done += 1
        except Exception as e:
            ctx.count('rejected', type(e).__name__ + ':' + str(e)[:50])
        ctx.tests['symmetry_runs'] = ctx.tests.get('symmetry_runs', 0) + done
        ctx.case_done(case, done >= 5)
    ctx.extra['rule'] = ('2-D point sets (lattice, dyadic, duplicates, clustered) x azimuths: tolerance 180 vs isotropic (4 azimuths, explicit and derived edges), azimuth vs azimuth+-180, '
                         'rotation by 90/180/-90/atan(3/4) degrees of coordinates and azimuth, sector tilings of width 90/60/45/30/20; pairs on a sector / tolerance boundary excluded where the property says so; '
                         'non-trivial = at least 5 symmetry comparisons made')
    return core.finish(ctx, coq, dc.TRUSTED, ['the sector clauses are proved for the compass mask (C13_sectors_cover, C13_sectors_overlap_on_boundary) and additionally run on the implementation'])
