"""C11 - how distances are supplied never changes the variogram (coordinates vs shared MetricSpace vs
absolute maxlag -> truncated sparse matrix)."""
import math
import numpy as np
from scipy.spatial.distance import pdist
import core, gen, vario_common as vc
from skgstat import Variogram, MetricSpace


def triple(V):
    return np.asarray(V.bins, float), np.asarray(V.bin_count), np.asarray(V.experimental, float)


def compare(ctx, case, what, a, b, sig):
    (e0, c0, x0), (e1, c1, x1) = a, b
    if len(e0) != len(e1) or not all(gen.close(p, q, 1e-12, 1e-12) for p, q in zip(e0, e1)):
        ctx.problem('oracle', '%s: lag edges differ' % what, case, {'a': e0.tolist()[:10], 'b': e1.tolist()[:10]}, dict(sig, part='edges'))
        return False
    if c0.tolist() != c1.tolist():
        ctx.problem('oracle', '%s: pair counts differ' % what, case, {'a': c0.tolist(), 'b': c1.tolist()}, dict(sig, part='counts'))
        return False
    if not all(gen.close(p, q, 1e-9, 1e-12) for p, q in zip(x0, x1)):
        ctx.problem('oracle', '%s: experimental variogram differs' % what, case, {'a': x0.tolist()[:10], 'b': x1.tolist()[:10]}, dict(sig, part='experimental'))
        return False
    return True


def run(ctx, replay=None):
    coq = core.Coq('C11')
    coq.build()
    model = core.Model()
    rng = ctx.rng
    try:
        n = 120 if not ctx.thorough() else 1200
        if replay and replay.get('case'):
            cases = [replay['case']]
        else:
            cases = vc.corpus_cases('C11')
            while len(cases) < n:
                c = vc.gen_case(rng, nmax=24, metrics=('euclidean',))
                if c.get('bins') is not None:
                    continue
                # an absolute maximum lag: below / at / above the largest distance
                D = pdist(np.array(c['coords']), 'euclidean')
                # occurring distances that are exactly representable (perfect-square rationals): only for
                # those is "maxlag equal to an occurring distance" free of rounding in the KD-tree's own arithmetic
                import math
                from fractions import Fraction
                cc = np.array(c['coords'], float)
                ud = set()
                for a_ in range(len(cc)):
                    for b_ in range(a_ + 1, len(cc)):
                        ex = gen.exact_dist(cc[a_], cc[b_], 'euclidean')
                        rn, rd = math.isqrt(ex.numerator), math.isqrt(ex.denominator)
                        if rn * rn == ex.numerator and rd * rd == ex.denominator and rn >= rd:
                            ud.add(rn / rd)
                ud = sorted(ud)
                if not ud:
                    continue
                dmax = float(D.max())
                form = rng.choice(['at_distance', 'at_distance', 'between', 'at_max', 'above'])
                if form == 'at_distance':
                    ml = rng.choice(ud)
                elif form == 'between':
                    ml = max(1.0, round(rng.uniform(0.3, 1.0) * dmax * 8) / 8.0) + 1.0 / 64
                elif form == 'at_max':
                    if ud[-1] != dmax:
                        continue
                    ml = ud[-1]
                else:
                    ml = float(np.ceil(dmax) + 1)
                c['maxlag'] = float(ml)
                c['tags']['maxlag_form'] = 'abs:' + form
                cases.append(c)
        for case in cases:
            ctx.count('maxlag_form', case['tags']['maxlag_form'])
            ctx.count('points', case['tags']['points'])
            ctx.count('bin_func', case['bin_func'])
            c = np.array(case['coords'], float)
            v = np.array(case['values'], float)
            kw = dict(estimator=case['estimator'], bin_func=case['bin_func'], n_lags=case['n_lags'], maxlag=case['maxlag'], fit_method=None)
            try:
                A = Variogram(c, v, **kw)                                        # raw coordinates + absolute maxlag -> sparse
                ms = MetricSpace(c.copy(), 'euclidean')                          # dense, shared
                B = Variogram(ms, v, **kw)
                B2 = Variogram(ms, v * 1.0, **kw)                                # second variogram on the shared space
                msd = MetricSpace(c.copy(), 'euclidean', max_dist=case['maxlag'])   # pre-computed truncated space
                Cc = Variogram(msd, v, **kw)
                ta, tb, tb2, tc = triple(A), triple(B), triple(B2), triple(Cc)
            except Exception as e:
                ctx.count('rejected', type(e).__name__)
                ctx.case_done(case, False)
                continue
            sparse_a = not isinstance(A.distance_matrix, np.ndarray)
            ctx.count('A_path', 'sparse' if sparse_a else 'dense')
            # model correspondence of the sparse path (ordering / alignment), ties the theorems to the code
            vc.eval_structure_case(ctx, model, case, prop='C11', V=A, checks=('model',))
            ctx.evaluations -= 1
            D = pdist(c, 'euclidean')
            clipped = case['maxlag'] < D.max() and not np.any(D == case['maxlag'])
            sig_sparse = {'what': 'sparse-vs-dense'}
            inside = set(float(x) for x in D if x <= case['maxlag'])
            if case['bin_func'] in vc.AUTO + ['rice'] and len(inside) < 2:
                sig_sparse = {'what': 'rule-based-zero-range-edge-exceeds-maxlag'}
            if clipped and case['bin_func'] == 'even':
                sig_sparse = {'what': 'sparse-maxlag-clipped-to-largest-stored-distance', 'method': 'even'}
            if case['bin_func'] in ('kmeans', 'ward') and sparse_a:
                # same multiset of distances within maxlag, different enumeration order: is the clustering order-dependent?
                from skgstat import binning
                fn = getattr(binning, case['bin_func'])
                da = np.asarray(A.distance, float)
                db = np.asarray(B.distance, float)
                db = db[db <= case['maxlag']]
                if len(da[da <= case['maxlag']]) == len(db) and np.array_equal(np.sort(da[da <= case['maxlag']]), np.sort(db)):
                    try:
                        e_sorted_a = fn(np.sort(da), case['n_lags'], case['maxlag'])[0]
                        e_sorted_b = fn(np.sort(db), case['n_lags'], case['maxlag'])[0]
                        if np.allclose(e_sorted_a, e_sorted_b, rtol=1e-12, atol=1e-12):
                            sig_sparse = {'what': 'clustering-depends-on-order-of-distances', 'method': case['bin_func']}
                    except Exception:
                        pass
            if case['bin_func'] == 'ward':
                vc.ward_reference(ctx, case, B, tb[0], case['maxlag'])
            compare(ctx, case, 'shared MetricSpace used twice', tb, tb2, {'what': 'shared-metricspace'})
            ok1 = compare(ctx, case, 'raw coordinates with absolute maxlag (sparse) vs dense MetricSpace', ta, tb, sig_sparse)
            compare(ctx, case, 'pre-computed truncated MetricSpace vs dense MetricSpace', tc, tb, sig_sparse)
            # ---- cross-variogram (two value columns) on the three ways of supplying the distances
            if case['bin_func'] in ('even', 'uniform') and rng.random() < 0.4:
                try:
                    v2 = np.column_stack((v, v[::-1] * 0.5 + np.arange(len(v)) % 3))
                    xa = triple(Variogram(c, v2, **kw))
                    xb = triple(Variogram(MetricSpace(c.copy(), 'euclidean'), v2, **kw))
                    xc = triple(Variogram(MetricSpace(c.copy(), 'euclidean', max_dist=case['maxlag']), v2, **kw))
                    compare(ctx, dict(case, cross=True), 'cross-variogram: raw coordinates with absolute maxlag vs dense MetricSpace', xa, xb, dict(sig_sparse, cross=True) if sig_sparse.get('what') != 'sparse-vs-dense' else {'what': 'sparse-vs-dense', 'cross': True})
                    compare(ctx, dict(case, cross=True), 'cross-variogram: truncated MetricSpace vs dense MetricSpace', xc, xb, dict(sig_sparse, cross=True) if sig_sparse.get('what') != 'sparse-vs-dense' else {'what': 'sparse-vs-dense', 'cross': True})
                    ctx.tests['cross_three_way'] = ctx.tests.get('cross_three_way', 0) + 1
                except Exception as e:
                    ctx.count('cross_rejected', type(e).__name__)
            # ---- a MetricSpace describes the points it was built from, also when its distances are computed later
            if rng.random() < 0.3:
                try:
                    for md_ in (None, case['maxlag']):
                        buf = c.copy()
                        msb = MetricSpace(buf, 'euclidean', max_dist=md_)
                        buf *= 0.5                     # the caller re-uses its array before the space is used for the first time
                        late = triple(Variogram(msb, v, **kw))
                        compare(ctx, dict(case, space_built_then_caller_rescaled=True, max_dist=md_), 'MetricSpace built before the caller rescaled its array vs the original points', late, tb if md_ is None else tc,
                                {'what': 'space-aliases-caller'})
                    ctx.tests['late_space_runs'] = ctx.tests.get('late_space_runs', 0) + 1
                except Exception as e:
                    ctx.count('late_space_rejected', type(e).__name__)
            # ---- one not yet evaluated MetricSpace shared by a variogram with an absolute maxlag and, afterwards, by one without
            if rng.random() < 0.3:
                try:
                    shared = MetricSpace(c.copy(), 'euclidean')
                    first_ = Variogram(shared, v, **kw)
                    _ = first_.experimental
                    kw_none = dict(kw, maxlag=None)
                    later = triple(Variogram(shared, v, **kw_none))
                    alone = triple(Variogram(MetricSpace(c.copy(), 'euclidean'), v, **kw_none))
                    compare(ctx, dict(case, shared_space_history='absolute maxlag first, then none'), 'a MetricSpace used first with an absolute maxlag, then without one, vs a space of its own', later, alone,
                            {'what': 'shared-space-truncated-by-first-user'})
                    if shared.max_dist is not None:
                        ctx.problem('oracle', 'a variogram with an absolute maxlag changed max_dist of the MetricSpace it was given', case, {'max_dist': shared.max_dist}, {'what': 'shared-space-mutated'})
                    ctx.tests['shared_space_maxlag_histories'] = ctx.tests.get('shared_space_maxlag_histories', 0) + 1
                except Exception as e:
                    ctx.count('shared_maxlag_rejected', type(e).__name__)
            # ---- the metric exchanged in place towards euclidean under a relative maxlag: same as constructing with it
            if case['bin_func'] in ('even', 'uniform') and rng.random() < 0.3:
                try:
                    rel = rng.choice([0.5, 'median', 'mean'])
                    kw_rel = dict(kw, maxlag=rel)
                    Vc = Variogram(c, v, **dict(kw_rel, dist_func='cityblock'))
                    _ = Vc.experimental
                    Vc.set_dist_function('euclidean')
                    compare(ctx, dict(case, maxlag_used=rel), 'cityblock switched to euclidean in place (relative maxlag) vs a dense euclidean MetricSpace', triple(Vc),
                            triple(Variogram(MetricSpace(c.copy(), 'euclidean'), v, **kw_rel)), {'what': 'metric-switched-in-place'})
                    ctx.tests['metric_switch_runs'] = ctx.tests.get('metric_switch_runs', 0) + 1
                except Exception as e:
                    ctx.count('metric_switch_rejected', type(e).__name__)
            # ---- the maximum lag lowered on the living instances (all pairs needed are still stored): same result as a fresh dense one
            if case['bin_func'] in ('even', 'uniform') and rng.random() < 0.5:
                m2 = math.floor(case['maxlag'] * 0.75 * 8) / 8.0 + 1.0 / 64
                if m2 >= 1.0 and np.sum(D <= m2) >= 2:
                    try:
                        kw2 = dict(kw, maxlag=m2)
                        ref = triple(Variogram(MetricSpace(c.copy(), 'euclidean'), v, **kw2))
                        sig2 = {'what': 'lowered-maxlag-in-place'}
                        if case['bin_func'] == 'even' and not np.any(D == m2):
                            sig2 = {'what': 'sparse-maxlag-clipped-to-largest-stored-distance', 'method': 'even'}
                        for label, inst in (('raw coordinates', Variogram(c, v, **kw)), ('truncated MetricSpace', Variogram(MetricSpace(c.copy(), 'euclidean', max_dist=case['maxlag']), v, **kw))):
                            _ = inst.experimental
                            inst.maxlag = m2
                            compare(ctx, dict(case, maxlag_lowered_to=m2), 'maximum lag lowered in place on a variogram built from %s vs a fresh dense one' % label, triple(inst), ref, sig2)
                        ctx.tests['lowered_maxlag_histories'] = ctx.tests.get('lowered_maxlag_histories', 0) + 1
                    except Exception as e:
                        ctx.count('lowered_maxlag_rejected', type(e).__name__ + ':' + str(e)[:40])
            # ---- a parametrised metric: truncated vs full MetricSpace (raw coordinates cannot carry the keyword arguments)
            if case['bin_func'] in ('even', 'uniform') and rng.random() < 0.3:
                try:
                    pk = {'p': rng.choice([1, 3])}
                    Dm = pdist(c, 'minkowski', **pk)
                    mlm = float(np.sort(Dm)[len(Dm) // 2]) if pk['p'] == 1 else math.floor(float(np.median(Dm)) * 8) / 8.0 + 1.0 / 64
                    if mlm >= 1.0:
                        kwm = dict(kw, maxlag=mlm, dist_func='minkowski')
                        full = triple(Variogram(MetricSpace(c.copy(), 'minkowski', dist_metric_kwargs=dict(pk)), v, **kwm))
                        trunc = triple(Variogram(MetricSpace(c.copy(), 'minkowski', max_dist=mlm, dist_metric_kwargs=dict(pk)), v, **kwm))
                        compare(ctx, dict(case, minkowski=pk, maxlag_used=mlm), 'MetricSpace(minkowski, p=%d) with max_dist vs without' % pk['p'], trunc, full, {'what': 'parametrised-metric-truncated'})
                        ctx.tests['parametrised_metric_runs'] = ctx.tests.get('parametrised_metric_runs', 0) + 1
                except Exception as e:
                    ctx.count('parametrised_metric_rejected', type(e).__name__ + ':' + str(e)[:40])
            # ---- history on the shared space: a second variogram changes ITS metric; the first one, recalculated, and a new
            # variogram on the same space still see the space's own distances
            if case['bin_func'] in ('even', 'uniform') and rng.random() < 0.5:
                try:
                    other = rng.choice(['cityblock', 'chebyshev'])
                    for space, label in ((ms, 'dense'), (msd, 'truncated')):
                        P = Variogram(space, v, **kw)
                        Q = Variogram(space, v + 1.0, **kw)
                        before = triple(P)
                        Q.set_dist_function(other)
                        _ = Q.experimental
                        nl = P.n_lags
                        P.n_lags = nl + 1
                        _ = P.experimental
                        P.n_lags = nl
                        after = triple(P)
                        compare(ctx, case, 'another variogram on the shared %s MetricSpace changed its metric; this one recalculated' % label, before, after, {'what': 'shared-metricspace-history', 'space': label})
                        R = Variogram(space, v, **kw)
                        compare(ctx, case, 'a new variogram on the shared %s MetricSpace after another one changed its metric' % label, before, triple(R), {'what': 'shared-metricspace-history', 'space': label})
                    ctx.tests['shared_space_histories'] = ctx.tests.get('shared_space_histories', 0) + 1
                except Exception as e:
                    ctx.problem('oracle', 'a history on a shared MetricSpace raises %s: %s' % (type(e).__name__, str(e)[:80]), case, None, {'what': 'shared-metricspace-history-raises'})
            ctx.case_done(case, sum(1 for k in tb[1] if k > 0) >= 2)
        vc.run_golden(ctx, coq, model)
    finally:
        model.close()
    ctx.extra['rule'] = ('every configuration is built three ways (raw coordinates + absolute maxlag, dense shared MetricSpace (twice), MetricSpace(max_dist)); '
                         'maxlag below / at an occurring distance / at / above the largest distance; point sets incl. duplicates and lattices; non-trivial = >= 2 non-empty classes')
    return core.finish(ctx, coq, vc.TRUSTED_STRUCT, vc.ASSUME_STRUCT)
