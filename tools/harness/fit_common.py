"""Shared machinery for the fit properties C04 / C05: data sets, configurations, recorder around curve_fit."""
import sys, warnings
import numpy as np
import core, gen
warnings.filterwarnings('ignore')
import skgstat
from skgstat import Variogram, models
vmod = sys.modules['skgstat.Variogram']

SINGLE = ['spherical', 'exponential', 'gaussian', 'cubic', 'stable', 'matern']
SUMS = ['spherical+gaussian', 'exponential+spherical', 'stable+cubic', 'spherical+exponential+gaussian', 'spherical+spherical', 'exponential+gaussian+exponential']
TRUSTED = [
    'Coq 8.16.1 kernel (coqc, full .vo builds; vm_compute for the in-Coq golden cases); no native_compute',
    'extraction: ExtrOcamlBasic only, no Extract Constant; OCaml 4.13.1 + tools/ocaml/driver.ml',
    'correspondence harness (recorder around the module attribute curve_fit; tolerances 1e-9)',
    'modelled, not verified: scipy.optimize.curve_fit / least_squares, numba-compiled model functions, floating-point rounding',
]


class FitRecorder:
    def __init__(self):
        self.calls = []
        self.inner = vmod.curve_fit

    def __enter__(self):
        vmod.curve_fit = self
        return self

    def __exit__(self, *a):
        vmod.curve_fit = self.inner

    def __call__(self, f, xdata, ydata, **kw):
        self.calls.append({'f': f, 'x': np.array(xdata, float), 'y': np.array(ydata, float), 'kw': kw})
        return self.inner(f, xdata, ydata, **kw)


def field(rng, n=None, with_gap=False):
    """a smooth field + noise on clustered / scattered points; with_gap produces empty lag classes"""
    n = n or rng.randint(30, 60)
    if with_gap:
        k = 2
        cen = [[0.0, 0.0], [rng.uniform(60, 90), rng.uniform(60, 90)]]
        c = np.array([[cen[i % k][0] + rng.randint(0, 640) / 64.0, cen[i % k][1] + rng.randint(0, 640) / 64.0] for i in range(n)])
    else:
        c = np.array([[rng.randint(0, 6400) / 64.0, rng.randint(0, 6400) / 64.0] for _ in range(n)])
    a, b = rng.uniform(0.01, 0.08), rng.uniform(0.01, 0.08)
    v = np.array([10 * np.sin(a * p[0]) + 8 * np.cos(b * p[1]) + rng.gauss(0, 1.0) for p in c])
    return c, v


def k_of(model):
    return 3 if model in ('stable', 'matern') else 2
