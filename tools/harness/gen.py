"""Input generators shared by the correspondence checks.  Everything derives from one PRNG."""
import numpy as np
from fractions import Fraction


def point_set(rng, n=None, dim=None, kind=None, nmax=30):
    """Returns (kind, coords ndarray float64 (n,dim)).  Coordinates are dyadic so that squared
    euclidean / cityblock / chebyshev distances are exactly computable from the stored floats."""
    kind = kind or rng.choice(['lattice', 'lattice', 'dyadic', 'dyadic', 'clustered', 'dups', 'line'])
    dim = dim or rng.choice([1, 2, 2, 2, 3])
    n = n or rng.randint(4, nmax)
    if kind == 'lattice':
        side = max(2, int(round(n ** (1.0 / dim))) + rng.randint(0, 2))
        pts = set()
        tries = 0
        while len(pts) < min(n, side ** dim) and tries < 10000:
            pts.add(tuple(rng.randint(0, side - 1) for _ in range(dim)))
            tries += 1
        c = np.array(sorted(pts), dtype=float)
        idx = list(range(len(c)))
        rng.shuffle(idx)
        c = c[idx]
    elif kind == 'dyadic':
        c = np.array([[rng.randint(0, 4096) / 64.0 for _ in range(dim)] for _ in range(n)])
    elif kind == 'clustered':
        k = rng.randint(2, 4)
        cen = [[rng.randint(0, 4000) / 16.0 for _ in range(dim)] for _ in range(k)]
        c = np.array([[cen[i % k][d] + rng.randint(-64, 64) / 64.0 for d in range(dim)] for i in range(n)])
    elif kind == 'dups':
        base = [[rng.randint(0, 640) / 32.0 for _ in range(dim)] for _ in range(max(3, n - rng.randint(1, 3)))]
        c = list(base)
        while len(c) < n:
            c.append(list(rng.choice(base)))
        rng.shuffle(c)
        c = np.array(c)
    else:  # 'line': collinear equidistant points (many ties, distances on even-bin edges)
        step = rng.choice([1.0, 0.5, 2.0])
        c = np.zeros((n, dim))
        c[:, 0] = np.arange(n) * step
        idx = list(range(n))
        rng.shuffle(idx)
        c = c[idx]
    if dim == 1 and rng.random() < 0.5:
        pass
    return kind, np.asarray(c, dtype=float)


def values(rng, n, kind=None):
    kind = kind or rng.choice(['dyadic', 'dyadic', 'ints', 'two', 'squares', 'const'])
    if kind == 'dyadic':
        v = [rng.randint(-2048, 2048) / 128.0 for _ in range(n)]
    elif kind == 'ints':
        v = [float(rng.randint(0, 20)) for _ in range(n)]
    elif kind == 'two':
        v = [float(rng.choice([0, 3])) for _ in range(n)]
    elif kind == 'squares':   # all differences are (differences of) small squares
        v = [float(rng.randint(0, 6) ** 2) for _ in range(n)]
    else:
        v = [2.5] * n
    return kind, np.array(v, dtype=float)


def exact_dist(a, b, metric):
    """exact squared euclidean / exact cityblock / exact chebyshev distance as Fraction"""
    fa = [Fraction(float(x)) for x in np.atleast_1d(a)]
    fb = [Fraction(float(x)) for x in np.atleast_1d(b)]
    if metric == 'euclidean':
        return sum((x - y) ** 2 for x, y in zip(fa, fb))     # squared!
    if metric == 'cityblock':
        return sum(abs(x - y) for x, y in zip(fa, fb))
    if metric == 'chebyshev':
        return max(abs(x - y) for x, y in zip(fa, fb))
    raise ValueError(metric)


def close(a, b, rel=1e-9, abs_=1e-12):
    if a is None or b is None:
        return a is None and b is None
    a, b = float(a), float(b)
    if a != a or b != b:
        return a != a and b != b
    if a == b:
        return True          # also equal infinities
    return abs(a - b) <= abs_ + rel * max(abs(a), abs(b))
