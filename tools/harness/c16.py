"""C16 - cross-variograms: products of paired differences, symmetric table, diagonal = ordinary variograms."""
import numpy as np
import core, gen, vario_common as vc
from skgstat import Variogram, DirectionalVariogram
from skgstat.util.cross_variogram import cross_variograms


def run(ctx, replay=None):
    coq = core.Coq('C16')
    coq.build()
    model = core.Model()
    rng = ctx.rng
    try:
        n = 80 if not ctx.thorough() else 800
        cases = [replay['case']] if replay and replay.get('case') else vc.corpus_cases('C16') + vc.gen_cases(ctx, n, nmax=20, cross=True)
        for case in cases:
            if case.get('table'):
                continue
            # two-column values: structure correspondence (cross differences checked against |dz1|*|dz2| of the model's pair)
            vc.eval_structure_case(ctx, model, case, prop='C16')
        # unsigned two-column value tables on the truncated (absolute maxlag) path: always part of a run
        if not replay:
            found, tries = 0, 0
            while found < 4 and tries < 400:
                tries += 1
                uc = vc.gen_case(rng, nmax=18, cross=True)
                if uc.get('bins') is not None or not (isinstance(uc['maxlag'], float) and uc['maxlag'] >= 1) or uc['dist_func'] != 'euclidean' or uc['bin_func'] in ('kmeans', 'ward'):
                    continue
                n_ = len(uc['values'])
                uc['values'] = [float(rng.randint(0, 200)) for _ in range(n_)]
                uc['values2'] = [float(rng.randint(0, 250)) for _ in range(n_)]
                uc['values_dtype'] = rng.choice(['uint8', 'uint16'])
                uc['tags'] = dict(uc['tags'], stream='unsigned-table-sparse')
                found += 1
                vc.eval_structure_case(ctx, model, uc, prop='C16')
        # an instance that was a cross-variogram receives one-column values again: ordinary variogram
        for case in cases[:30 if not ctx.thorough() else 300]:
            if case.get('table'):
                continue
            try:
                Vx = vc.build(case)
                _ = Vx.experimental
                v1 = np.array(case['values'], float)
                how = rng.choice(['setter', 'set_values'])
                if how == 'setter':
                    Vx.values = v1
                else:
                    Vx.set_values(v1)
                single = vc.build(dict(case, values2=None))
                a, b = np.asarray(Vx.experimental, float), np.asarray(single.experimental, float)
                if Vx.is_cross_variogram or len(a) != len(b) or not all(gen.close(x, y, 1e-12) for x, y in zip(a, b)):
                    ctx.problem('oracle', 'after assigning one-column values to a former cross-variogram the result is not the ordinary variogram', case,
                                {'inplace': a.tolist()[:8], 'fresh': b.tolist()[:8], 'flag': bool(Vx.is_cross_variogram)})
                ctx.tests['former_cross_instances'] = ctx.tests.get('former_cross_instances', 0) + 1
            except Exception as e:
                ctx.count('former_cross_rejected', type(e).__name__)
        # using a cross-variogram (non-forced preprocessing, fit, transform, data) never changes its pairwise quantities; (z1,z2) = (z2,z1) also
        # for column-major tables the caller keeps writing to
        for case in cases[:30 if not ctx.thorough() else 300]:
            if case.get('table') or case.get('values2') is None:
                continue
            try:
                v1, v2 = np.array(case['values'], float), np.array(case['values2'], float)
                Va = vc.build(dict(case), fit_method='trf', model='spherical')
                e0, d0 = np.asarray(Va.experimental, float).copy(), np.asarray(Va.pairwise_diffs, float).copy()
                used = []
                for use in rng.sample(['preprocessing', 'fit', 'transform', 'data', 'describe'], 3):
                    try:
                        if use == 'preprocessing':
                            Va.preprocessing()
                        elif use == 'fit':
                            Va.fit()
                        elif use == 'transform':
                            Va.transform(np.array([1.0, 2.5]))
                        elif use == 'data':
                            Va.data(n=10)
                        else:
                            Va.describe()
                        used.append(use)
                    except Exception as e:
                        ctx.count('use_rejected', use + ':' + type(e).__name__)
                e1, d1 = np.asarray(Va.experimental, float), np.asarray(Va.pairwise_diffs, float)
                if len(d0) != len(d1) or not np.array_equal(d0, d1) or not all(gen.close(x, y, 1e-12) for x, y in zip(e0, e1)):
                    ctx.problem('oracle', 'using a cross-variogram (%s) changes its pairwise quantities / experimental values' % ', '.join(used), case,
                                {'before': e0.tolist()[:8], 'after': e1.tolist()[:8]}, {'what': 'cross-use-changes-diffs'})
                # column-major table, caller writes afterwards, forced recalculation: still |dz1|*|dz2| of the values at construction, in both orders
                tab = np.array([v1, v2]).T
                tab2 = np.array([v2, v1]).T
                Vf = vc.build(dict(case, values=None, values2=None), values_table=tab)
                Vg = vc.build(dict(case, values=None, values2=None), values_table=tab2)
                tab[:, 1] = tab[:, 1] * 3.0 + 1.0
                tab2[:, 0] = tab2[:, 0] * 0.0
                Vf.preprocessing(force=True)
                Vg.preprocessing(force=True)
                ef, eg = np.asarray(Vf.experimental, float), np.asarray(Vg.experimental, float)
                if not all(gen.close(x, y, 1e-12) for x, y in zip(ef, e0)) or not all(gen.close(x, y, 1e-12) for x, y in zip(ef, eg)):
                    ctx.problem('oracle', 'cross-variogram of a column-major value table: after the caller wrote into the table, (z1,z2), (z2,z1) and the values at construction disagree', case,
                                {'z1z2': ef.tolist()[:8], 'z2z1': eg.tolist()[:8], 'at_construction': e0.tolist()[:8]}, {'what': 'cross-table-layout'})
                ctx.tests['cross_usage_histories'] = ctx.tests.get('cross_usage_histories', 0) + 1
            except Exception as e:
                ctx.count('cross_usage_rejected', type(e).__name__ + ':' + str(e)[:50])
        # the table of cross_variograms
        nt = 25 if not ctx.thorough() else 250
        for t in range(nt):
            base = vc.gen_case(rng, nmax=16)
            while t < 3 and not (len(base['coords'][0]) == 2 and base['dist_func'] == 'euclidean'):
                base = vc.gen_case(rng, nmax=16)          # the first tables are directional ones (2-D, Euclidean)
            if t < 6 and not replay:
                # 'median' / 'mean' maximum lags are always part of a run, also for coordinates in the unit square (median distance < 1)
                base['bins'], base['maxlag'] = None, ('median' if t % 2 == 0 else 'mean')
                if base['bin_func'] in ('kmeans', 'ward'):
                    base['bin_func'] = 'even'
                if t in (2, 3):
                    cc_ = np.array(base['coords'], float)
                    base['coords'] = (cc_ / max(1.0, float(np.abs(cc_).max())) / 2.0).tolist()
            ncol = rng.choice([2, 3, 3, 4])
            npts = len(base['coords'])
            cols = [gen.values(rng, npts, kind=rng.choice(['dyadic', 'ints', 'squares']))[1] for _ in range(ncol)]
            vals = np.column_stack(cols)
            directional = (rng.random() < 0.3 or t < 3) and len(base['coords'][0]) == 2 and base['dist_func'] == 'euclidean'
            case = dict(base, table=True, columns=[c.tolist() for c in cols], directional=directional)
            kw = dict(estimator=base['estimator'], n_lags=base['n_lags'], fit_method=None)
            if base.get('bins') is not None:
                kw['bin_func'] = np.array(base['bins'])
            else:
                kw['bin_func'] = base['bin_func']
                kw['maxlag'] = base['maxlag']
            if directional:
                if rng.random() < 0.35 or t < 3:
                    kw.update(azimuth=0)          # the direction alone (East), tolerance / bandwidth left at their defaults
                else:
                    kw.update(azimuth=rng.choice([0, 45, 90, -60]), tolerance=rng.choice([45, 90, 180]))
                if isinstance(kw.get('maxlag'), float) and kw['maxlag'] >= 1:
                    pass
                kw.pop('fit_method')
            else:
                kw['dist_func'] = base['dist_func']
            ctx.count('table_kind', 'directional' if directional else 'isotropic')
            try:
                tab = cross_variograms(np.array(base['coords']), vals, **kw)
            except Exception as e:
                ctx.count('table_rejected', type(e).__name__)
                ctx.case_done(case, False)
                continue
            cls = DirectionalVariogram if directional else Variogram
            if directional and not all(isinstance(tab[i_][j_], DirectionalVariogram) for i_ in range(ncol) for j_ in range(ncol)):
                ctx.problem('oracle', 'a direction was passed to cross_variograms but the table holds isotropic variograms', dict(case, kwargs={k_: v_ for k_, v_ in kw.items() if k_ in ('azimuth', 'tolerance', 'bandwidth')}), None,
                            {'what': 'table-base-class'})
            ok = True
            for i in range(ncol):
                for j in range(ncol):
                    a, b = tab[i][j], tab[j][i]
                    ea, eb = np.asarray(a.experimental, float), np.asarray(b.experimental, float)
                    if not (np.array_equal(np.asarray(a.bins), np.asarray(b.bins)) and np.array_equal(np.asarray(a.bin_count), np.asarray(b.bin_count))
                            and all(gen.close(x, y, 1e-12) for x, y in zip(ea, eb))):
                        ctx.problem('oracle', 'cross-variogram table entry (%d,%d) differs from entry (%d,%d)' % (i, j, j, i), case,
                                    {'ij': ea.tolist()[:8], 'ji': eb.tolist()[:8]})
                        ok = False
                        break
                if not ok:
                    break
                try:
                    single = cls(np.array(base['coords']), cols[i], **kw)
                    d = tab[i][i]
                    if not (np.array_equal(np.asarray(single.bins), np.asarray(d.bins)) and np.array_equal(np.asarray(single.bin_count), np.asarray(d.bin_count))
                            and all(gen.close(x, y, 1e-12) for x, y in zip(np.asarray(single.experimental, float), np.asarray(d.experimental, float)))):
                        ctx.problem('oracle', 'diagonal entry (%d,%d) of the cross-variogram table is not the ordinary variogram of variable %d' % (i, i, i), case,
                                    {'table': np.asarray(d.experimental, float).tolist()[:8], 'single': np.asarray(single.experimental, float).tolist()[:8]})
                        ok = False
                        break
                    if d.is_cross_variogram:
                        ctx.problem('oracle', 'diagonal entry is flagged as cross-variogram', case, None)
                except Exception as e:
                    ctx.count('single_rejected', type(e).__name__)
            # off-diagonal entries: pairwise quantity = |dz_i| * |dz_j| of the same pair (dense isotropic tables)
            if ok and not directional:
                for i in range(ncol):
                    for j in range(ncol):
                        if i == j:
                            continue
                        cc = dict(base, values=cols[i].tolist(), values2=cols[j].tolist())
                        vc.eval_structure_case(ctx, model, cc, prop='C16', V=tab[i][j])
                        break
                    break
            ctx.case_done(case, True)
        vc.run_golden(ctx, coq, model)
    finally:
        model.close()
    ctx.extra['rule'] = ('stream 1: two-column Variogram(...) configurations (as C01, values2 added) checked against the model and the brute-force oracle with |dz1|*|dz2|; '
                         'stream 2: cross_variograms tables (2-4 variables, isotropic and directional base class): symmetry, diagonal = ordinary variogram; '
                         'non-trivial = at least two non-empty lag classes / any table')
    return core.finish(ctx, coq, vc.TRUSTED_STRUCT, vc.ASSUME_STRUCT)
