"""Shared space-time variogram case generation for C14 / C15."""
import warnings
import numpy as np
from scipy.spatial.distance import pdist
import core, gen
warnings.filterwarnings('ignore')
from skgstat import SpaceTimeVariogram, estimators

TRUSTED = [
    'Coq 8.16.1 kernel (coqc, full .vo builds; vm_compute for the in-Coq golden cases); no native_compute',
    'extraction: ExtrOcamlBasic only, no Extract Constant; OCaml 4.13.1 + tools/ocaml/driver.ml',
    'correspondence harness tools/harness (generators, exact comparison of index structure, tolerance 1e-9 for computed floats)',
    'modelled, not verified: scipy pdist, numpy percentile/linspace, scipy curve_fit (C15), floating-point rounding',
]


def gen_case(rng, nmax=10, tmax=6):
    n = rng.randint(3, nmax)
    T = rng.randint(3, tmax)
    kind = rng.choice(['lattice', 'lattice', 'dyadic', 'dups', 'line'])
    _, c = gen.point_set(rng, n=n, dim=2, kind=kind)
    n = len(c)
    vk = rng.choice(['ints', 'dyadic', 'two'])
    if vk == 'ints':
        v = [[float(rng.randint(0, 12)) for _ in range(T)] for _ in range(n)]
    elif vk == 'dyadic':
        v = [[rng.randint(-256, 256) / 16.0 for _ in range(T)] for _ in range(n)]
    else:
        v = [[float(rng.choice([0, 4])) for _ in range(T)] for _ in range(n)]
    x_lags = rng.randint(1, 5)
    t_lags = rng.choice(['max', 'max', rng.randint(1, 5)])
    D = pdist(c)
    maxlag = rng.choice([None, None, 0.5, 0.75, 'median'] + ([float(np.ceil(D.max() / 2))] if len(D) and D.max() > 2 else []))
    return {'coords': c.tolist(), 'values': v, 'x_lags': x_lags, 't_lags': t_lags, 'maxlag': maxlag,
            'xbins': rng.choice(['even', 'even', 'uniform', 'sturges', 'scott', 'sqrt']), 'tbins': rng.choice(['even', 'even', 'uniform']),
            'estimator': rng.choice(['matheron', 'cressie', 'dowd', 'genton']) if n * T <= 40 else rng.choice(['matheron', 'cressie', 'dowd']),
            'model': rng.choice(['sum', 'product', 'product-sum']), 'use_nugget': rng.random() < 0.3,
            'tags': {'points': kind, 'n': n, 'T': T, 'values': vk}}


def build(case, **over):
    kw = dict(x_lags=case['x_lags'], t_lags=case['t_lags'], maxlag=case['maxlag'], xbins=case['xbins'], tbins=case['tbins'],
              estimator=case['estimator'], model=case['model'], use_nugget=bool(case.get('use_nugget', False)))
    kw.update(over)
    return SpaceTimeVariogram(np.array(case['coords'], float), np.array(case['values'], float), **kw)
