"""C14 - space-time experimental variogram = estimator over exactly each cell's pairs."""
import numpy as np
from scipy.spatial.distance import pdist
import core, gen, vario_common as vc, st_common as st


def same_float(a, b):
    a, b = float(a), float(b)
    return (a != a and b != b) or a == b


def run(ctx, replay=None):
    coq = core.Coq('C14')
    coq.build()
    model = core.Model()
    rng = ctx.rng
    try:
        n = 80 if not ctx.thorough() else 800
        cases = [replay['case']] if replay and replay.get('case') else vc.corpus_cases('C14') + [st.gen_case(rng) for _ in range(n)]
        for case in cases:
            for k, v in case['tags'].items():
                ctx.count(k, v)
            for k in ('xbins', 'tbins', 'estimator'):
                ctx.count(k, case[k])
            ctx.count('maxlag', repr(case['maxlag']))
            marg_first = rng.random() < 0.3
            try:
                V = st.build(case)
                if marg_first:
                    m0 = np.asarray(V.get_marginal('space', 0), float)      # before anything else was evaluated
                xb, tb = np.asarray(V.xbins, float), np.asarray(V.tbins, float)
                X, T = int(V.x_lags), int(V.t_lags)
                xd, td = np.asarray(V.xdistance, float), np.asarray(V.tdistance, float)
                exp = np.asarray(V.experimental, float)
                diff = np.asarray(V._diff, float)
                xg = np.asarray(V.lag_groups('space'))
                tg = np.asarray(V.lag_groups('time'))
            except Exception as e:
                ctx.count('rejected', type(e).__name__ + ':' + str(e)[:40])
                ctx.case_done(case, False)
                continue
            if not (np.all(np.isfinite(xb)) and np.all(np.isfinite(tb))):
                ctx.count('degenerate_edges_nan')          # no distance within the maximum lag: nanpercentile of nothing
                ctx.case_done(case, False)
                continue
            v = np.array(case['values'], float)
            nloc, nt = v.shape
            est = V.estimator
            ctx.disagreements_checked += 1
            gold = nloc * nt <= 12 and len(model.golden) < 30
            bad = False
            # ---- correspondence: difference table, groups, cells
            md = model('st_diff', v.tolist(), nt, golden=gold)
            md = np.array([[float(x) for x in r] for r in md]) if md and md[0] else np.zeros(diff.shape)
            if md.shape != diff.shape or not np.array_equal(md, diff):
                ctx.problem('correspondence', 'combined difference table differs from SpaceTime.st_diff', case, {'shape_model': md.shape, 'shape_impl': diff.shape})
                bad = True
            mxg = model('groups_oc', xb.tolist(), xd.tolist(), golden=gold)
            mtg = model('groups_oc', tb.tolist(), td.tolist(), golden=gold)
            if mxg != [None if g < 0 else int(g) for g in xg.tolist()] or mtg != [None if g < 0 else int(g) for g in tg.tolist()]:
                ctx.problem('correspondence', 'space/time lag groups differ from SpaceTime.group_oc ((lo, hi] classes)', case,
                            {'xbins': xb.tolist(), 'tbins': tb.tolist()})
                bad = True
            if len(exp) != X * T or len(xb) != X or len(tb) != T:
                ctx.problem('correspondence', 'table size is not x_lags * t_lags', case, {'len': len(exp), 'X': X, 'T': T})
                bad = True
            if not bad:
                cells = model('st_cells', diff.tolist(), [None if g < 0 else int(g) for g in xg.tolist()], [None if g < 0 else int(g) for g in tg.tolist()], X, T)
                for k, cell in enumerate(cells):
                    arr = np.array([float(x) for x in cell], float)
                    want = est(arr) if len(arr) else float('nan')
                    if est.__name__ == 'dowd' and len(arr) == 0:
                        want = float('nan')
                    if not same_float(want, exp[k]):
                        ctx.problem('correspondence', 'table entry is not the estimator over the cell SpaceTime.cell predicts (order / selection)', case,
                                    {'entry': k, 'i': k // T, 'j': k % T, 'estimator_on_cell': float(want), 'impl': float(exp[k]), 'cell_size': len(arr)})
                        bad = True
                        break
            # ---- oracle: the property statement by brute force over raw locations and time steps
            c = np.array(case['coords'], float)
            dx = pdist(c)
            ia, ib = np.triu_indices(nloc, 1)
            sa, sb = np.triu_indices(nt, 1)
            dt = (sb - sa).astype(float)
            if not np.array_equal(dt, td):
                ctx.count('tdistance_not_stepdiff')
            xlo = [0.0] + xb.tolist()[:-1]
            tlo = [0.0] + tb.tolist()[:-1]
            nonempty = 0
            for i in range(X):
                selx = np.where((dx > xlo[i]) & (dx <= xb[i]))[0]
                for j in range(T):
                    selt = np.where((td > tlo[j]) & (td <= tb[j]))[0]
                    vals = [abs(v[ia[p], sa[q]] - v[ib[p], sb[q]]) for p in selx for q in selt]
                    want = vc.doc_estimator(case['estimator'], vals)
                    if vals:
                        nonempty += 1
                    if not gen.close(want, exp[i * T + j], 1e-9, 1e-12):
                        ctx.problem('oracle', 'cell (%d,%d): semivariance %r, estimator over the pairs with space lag in (xedge[i-1], xedge[i]] and time lag in (tedge[j-1], tedge[j]] gives %r'
                                    % (i, j, float(exp[i * T + j]), want), case, {'i': i, 'j': j, 'pairs': len(vals)})
                        bad = True
                        break
                if bad:
                    break
            # marginals = row / column of the table
            if not bad:
                try:
                    for j in range(T):
                        V.get_marginal('space', j)
                    for i in range(X):
                        V.get_marginal('time', i)
                except Exception as e:
                    ctx.problem('oracle', 'get_marginal raises %s for a valid lag index: %s' % (type(e).__name__, str(e)[:80]), case, {'X': X, 'T': T}, {'what': 'marginal-raises'})
                    ctx.case_done(case, nonempty >= 2)
                    continue
                for j in range(T):
                    ms = np.asarray(V.get_marginal('space', j), float)
                    if len(ms) != X or not all(same_float(ms[i], exp[i * T + j]) for i in range(X)):
                        ctx.problem('oracle', 'space marginal for time lag %d is not the corresponding column of the table' % j, case, {'marginal': ms.tolist(), 'column': [float(exp[i * T + j]) for i in range(X)]})
                        break
                for i in range(X):
                    mt = np.asarray(V.get_marginal('time', i), float)
                    if len(mt) != T or not all(same_float(mt[j], exp[i * T + j]) for j in range(T)):
                        ctx.problem('oracle', 'time marginal for space lag %d is not the corresponding row of the table' % i, case, {'marginal': mt.tolist()})
                        break
                if marg_first and (len(m0) != X or not all(same_float(m0[i], exp[i * T]) for i in range(X))):
                    ctx.problem('oracle', 'marginal requested before any other evaluation differs from the table column', case, {'marginal': m0.tolist()})
            ctx.case_done(case, nonempty >= 2)
        # ---- in-place maxlag / lag changes keep table and groups consistent with the edges in use
        for case in cases[: (25 if not ctx.thorough() else 250)]:
            try:
                V = st.build(case)
                _ = V.experimental
                newml = rng.choice([None, 0.5, 'median', 0.9])
                V.maxlag = newml
                exp = np.asarray(V.experimental, float)
                fresh = st.build(dict(case, maxlag=newml))
                ef = np.asarray(fresh.experimental, float)
                if len(exp) != len(ef) or not all(gen.close(a, b, 1e-12) for a, b in zip(exp, ef)) or not np.allclose(V.xbins, fresh.xbins, equal_nan=True):
                    ctx.problem('oracle', 'after assigning maxlag on an evaluated instance the table differs from a fresh instance', dict(case, new_maxlag=newml),
                                {'inplace': exp.tolist()[:8], 'fresh': ef.tolist()[:8]}, {'what': 'st-inplace-maxlag'})
                ctx.tests['inplace_maxlag_runs'] = ctx.tests.get('inplace_maxlag_runs', 0) + 1
            except Exception as e:
                ctx.count('inplace_rejected', type(e).__name__)
        # ---- other settings assigned on an evaluated instance: the table is the table of a fresh instance with those settings
        for case in cases[: (40 if not ctx.thorough() else 400)]:
            op = rng.choice(['x_lags', 't_lags', 'xbins', 'tbins', 'estimator', 'values', 'xdist', 'tdist'])
            rule_based = case['xbins'] not in ('even', 'uniform')
            if rule_based and op in ('x_lags', 'xbins'):
                continue          # the class count of a rule-based binning is derived; assigning one has no fresh counterpart
            over, c2 = {}, case
            try:
                V = st.build(case)
                _ = V.experimental
                try:
                    _ = V.get_marginal('space', 0), V.get_marginal('time', 0)          # marginals read once before the assignment
                except Exception:
                    pass
                if op == 'x_lags':
                    nv = rng.randint(1, 5)
                    V.x_lags = nv
                    over = {'x_lags': nv}
                elif op == 't_lags':
                    nv = rng.randint(1, 3)
                    V.t_lags = nv
                    over = {'t_lags': nv}
                elif op == 'xbins':
                    nv = 'uniform' if case['xbins'] == 'even' else 'even'
                    V.xbins = nv
                    over = {'xbins': nv}
                elif op == 'tbins':
                    nv = 'uniform' if case['tbins'] == 'even' else 'even'
                    V.tbins = nv
                    over = {'tbins': nv}
                elif op == 'estimator':
                    nv = rng.choice([e_ for e_ in ('matheron', 'cressie', 'dowd') if e_ != case['estimator']])
                    V.set_estimator(nv)
                    over = {'estimator': nv}
                elif op == 'values':
                    nv = (np.array(case['values'], float) * 2.0 + 1.0).tolist()
                    V.values = np.array(nv)
                    c2 = dict(case, values=nv)
                elif op == 'xdist':
                    V.set_xdist_func('cityblock')
                    over = {'xdist_func': 'cityblock'}
                else:
                    V.set_tdist_func('chebyshev')
                    over = {'tdist_func': 'chebyshev'}
                exp = np.asarray(V.experimental, float)
                xb, tb = np.asarray(V.xbins, float), np.asarray(V.tbins, float)
                fresh = st.build(c2, **over)
                ef = np.asarray(fresh.experimental, float)
                if (len(exp) != len(ef) or not all(gen.close(a, b, 1e-12) for a, b in zip(exp, ef)) or not np.allclose(xb, fresh.xbins, equal_nan=True)
                        or not np.allclose(tb, fresh.tbins, equal_nan=True)):
                    ctx.problem('oracle', 'after assigning %s on an evaluated instance the table / the lag edges differ from a fresh instance with that setting' % op, dict(case, assigned=dict(over, op=op)),
                                {'inplace': exp.tolist()[:8], 'fresh': ef.tolist()[:8], 'xbins': xb.tolist(), 'fresh_xbins': np.asarray(fresh.xbins, float).tolist()}, {'what': 'st-inplace', 'setter': op})
                # the marginals of the instance are the rows / columns of ITS table, also after the assignment
                try:
                    Xn, Tn = len(xb), len(tb)
                    for j_ in range(Tn):
                        ms_ = np.asarray(V.get_marginal('space', j_), float)
                        if len(ms_) != Xn or not all(same_float(ms_[i_], exp[i_ * Tn + j_]) for i_ in range(Xn)):
                            ctx.problem('oracle', 'after assigning %s in place the space marginal for time lag %d is not the column of the table' % (op, j_), dict(case, assigned=dict(over, op=op)),
                                        {'marginal': ms_.tolist(), 'column': [float(exp[i_ * Tn + j_]) for i_ in range(Xn)]}, {'what': 'st-inplace-marginal', 'setter': op})
                            break
                    for i_ in range(Xn):
                        mt_ = np.asarray(V.get_marginal('time', i_), float)
                        if len(mt_) != Tn or not all(same_float(mt_[j_], exp[i_ * Tn + j_]) for j_ in range(Tn)):
                            ctx.problem('oracle', 'after assigning %s in place the time marginal for space lag %d is not the row of the table' % (op, i_), dict(case, assigned=dict(over, op=op)),
                                        {'marginal': mt_.tolist()}, {'what': 'st-inplace-marginal', 'setter': op})
                            break
                except Exception as e:
                    ctx.count('inplace_marginal_rejected', type(e).__name__)
                ctx.count('inplace_setter', op)
                ctx.tests['inplace_setter_runs'] = ctx.tests.get('inplace_setter_runs', 0) + 1
            except Exception as e:
                ctx.count('inplace_rejected', op + ':' + type(e).__name__)
        vc.run_golden(ctx, coq, model)
    finally:
        model.close()
    ctx.extra['rule'] = ('3-10 locations (lattice / dyadic / duplicates / collinear) x 3-6 time steps x x_lags/t_lags 1..5 or max x maxlag forms x even/uniform per axis x 4 estimators; '
                         'non-trivial = at least two non-empty cells')
    return core.finish(ctx, coq, st.TRUSTED, ['distances and edges are the floats the implementation produced, read as exact rationals'])
