"""C03 - theoretical models are valid, bounded, monotone variogram functions.

(T) translator tie: coq/Gen/Models.v is regenerated from models.py on every run; bridge lemmas and the
theorems of Properties/C03.v are re-checked against it.  Validation of the translator: the IR is
evaluated in Python against the original functions, and `interval` goals evaluate the generated Coq
definitions inside the assistant against the implementation's outputs.  Oracle: numeric sweep of the
property statement on the implementation (incl. Matern, array calls, sums of models)."""
import math, sys, os
import numpy as np
from fractions import Fraction
from scipy import special
import core, gen, vario_common as vc
sys.path.insert(0, os.path.join(core.VERIF, 'tools'))
import py2coq
from skgstat import models, Variogram

SINGLE = ['spherical', 'exponential', 'gaussian', 'cubic', 'stable', 'matern']


def frac_str(x):
    fr = Fraction(x).limit_denominator(10 ** 6) if not isinstance(x, Fraction) else x
    return '(%d / %d)' % (fr.numerator, fr.denominator) if fr.denominator != 1 else ('%d' % fr.numerator if fr >= 0 else '(%d)' % fr.numerator)


def run(ctx, replay=None):
    coq = core.Coq('C03', extra_targets=['Properties/C03b.v'])
    coq.build()
    ctx.translations = coq.translated
    model = core.Model()
    rng = ctx.rng
    try:
        # ---------- front-end validation of the translator: IR evaluated in Python vs the original functions
        try:
            irs = py2coq.translate_all()
        except Exception as e:
            irs = {}
            coq.broken.append({'kind': 'translation', 'file': 'tools/py2coq.py', 'lemma': 'translate_all', 'error': str(e)[:300]})
        nrt = 300 if not ctx.thorough() else 3000
        for t in range(nrt if irs else 0):
            name = rng.choice(SINGLE)
            r = 10 ** rng.uniform(-3, 3)
            h = rng.choice([0.0, r, r * (1 - 2 ** -52), r * (1 + 2 ** -52), r * 10 ** rng.uniform(-4, 2)])
            c0 = 10 ** rng.uniform(-2, 2)
            b = rng.choice([0.0, 0.5, 3.0])
            s = rng.uniform(0.1, 2.0) if name == 'stable' else rng.uniform(0.2, 8.0)
            env = {'h': h, 'r': r, 'c0': c0, 'b': b, 's': s, 'Gamma': special.gamma, 'Kv': special.kv}
            args = [h, r, c0] + ([s] if name in ('stable', 'matern') else []) + [b]
            want = float(getattr(models, name).py_func(*args))
            got = py2coq.ir_eval(irs['models.' + name]['ir'], env)
            ctx.count('ir_roundtrip', name)
            # 1 - rho cancels for h << r: an ulp in rho is an absolute error of ~1e-16 * sill in the result
            if not gen.close(want, got, 1e-12, 1e-14 * (abs(b) + abs(c0))):
                ctx.problem('translation', 'IR of models.%s evaluates differently from the source function' % name,
                            {'model': name, 'args': args}, {'source': want, 'ir': got}, {'what': 'ir-roundtrip'})
        # ---------- interval goals: the generated Coq definitions evaluated inside Coq vs the implementation
        goals, meta = [], []
        ng = 60 if not ctx.thorough() else 300
        for t in range(ng):
            name = rng.choice(['spherical', 'exponential', 'gaussian', 'cubic', 'stable'])
            r = Fraction(rng.randint(1, 400), rng.choice([1, 2, 4, 10]))
            h = rng.choice([Fraction(0), r, r / 2, r * Fraction(rng.randint(1, 300), 100), r * 3])
            c0 = Fraction(rng.randint(1, 200), 10)
            b = rng.choice([Fraction(0), Fraction(1, 2), Fraction(3)])
            s = Fraction(rng.randint(2, 20), 10)
            args = [h, r, c0] + ([s] if name == 'stable' else []) + [b]
            obs = float(getattr(models, name)(*[float(a) for a in args]))
            tol = 1e-9 * (float(abs(b)) + float(c0))
            call = '%s %s' % (name, ' '.join(frac_str(a) for a in args))
            obs_fr = Fraction(obs)
            prop = 'Rabs (%s - (%d / %d)) <= %d / %d' % (call, obs_fr.numerator, obs_fr.denominator, Fraction(tol).limit_denominator(10 ** 15).numerator, Fraction(tol).limit_denominator(10 ** 15).denominator)
            if name == 'stable' and h == 0:
                tac = 'unfold stable; destruct (Req_EM_T 0 0) as [E|E]; [interval | exfalso; apply E; reflexivity].'
            elif name == 'stable':
                tac = 'unfold stable; destruct (Req_EM_T %s 0) as [E|E]; [exfalso; revert E; apply Rgt_not_eq; interval | unfold Rpower; interval with (i_prec 80)].' % frac_str(h)
            elif name in ('spherical', 'cubic'):
                # robust against a flipped comparison in the source (<= vs <): decide whichever test is there
                tac = ('unfold %s; cbv zeta; '
                       'repeat match goal with |- context [Rle_dec ?a ?b] => destruct (Rle_dec a b) as [D|D] | |- context [Rlt_dec ?a ?b] => destruct (Rlt_dec a b) as [D|D] end; '
                       'first [ interval with (i_prec 80) | exfalso; first [ (apply D; interval) | (revert D; first [apply Rlt_not_le | apply Rle_not_lt]; interval) ] ].' % name)
            else:
                tac = 'unfold %s; cbv zeta; interval with (i_prec 80).' % name
            goals.append((prop, tac))
            meta.append({'model': name, 'args': [str(a) for a in args], 'impl': obs})
        nproved, failing, log = coq.interval_goals(goals)
        ctx.interval_goals = len(goals)
        if failing:
            k = failing[0]
            ctx.problem('correspondence', 'interval goal: Gen.%s evaluated inside Coq differs from models.%s (or the goal could not be discharged)' % (meta[k]['model'], meta[k]['model']),
                        meta[k], {'log': log[-300:]}, {'what': 'interval-goal'})
            ctx.interval_goals = len(goals)
            coq.broken.append({'kind': 'proof', 'file': 'Cases/C03_interval.v', 'lemma': 'goal %d (%s)' % (k, meta[k]['model']), 'error': log[-300:]})
        ctx.extra['interval_goal_samples'] = meta[:3]
        # ---------- oracle: numeric sweep of the property statement on the implementation
        nsw = 54 if not ctx.thorough() else 400
        for t in range(nsw):
            name = rng.choice(SINGLE)
            r = 10 ** rng.uniform(-9.3, 5.0)
            c0 = 10 ** rng.uniform(-4, 4)
            b = rng.choice([0.0, 0.0, 10 ** rng.uniform(-3, 3)])
            s = (rng.choice([0.05, 0.5, 1.0, 1.5, 2.0, rng.uniform(0.05, 2.0)]) if name == 'stable'
                 else rng.choice([0.1, 0.5, 1.5, 5.0, 20.0, rng.uniform(0.1, 20.0)]))
            extra = [s] if name in ('stable', 'matern') else []
            f = getattr(models, name)
            case = {'model': name, 'r': r, 'c0': c0, 'b': b, 's': s if extra else None}
            ctx.count('sweep_model', name)
            hs = sorted(set([0.0, r, np.nextafter(r, 0), np.nextafter(r, np.inf)] + [r * 10 ** e for e in np.linspace(-9, 9, 91).tolist()]
                            + [r * x for x in np.linspace(0.01, 1.2, 60).tolist()]))
            hs = [h for h in hs if h >= 0]
            try:
                vals = np.array([f(h, r, c0, *extra, b) for h in hs], float)
                arr = np.asarray(f(np.array(hs), r, c0, *extra, b), float)
                lst = np.asarray(f(list(hs), r, c0, *extra, b), float)
                akw = np.asarray(f(np.array(hs), r, c0, *extra, b=b), float)
                skw = np.array([f(h, r, c0, *extra, b=b) for h in hs[:20]], float)
            except Exception as e:
                ctx.problem('oracle', 'model raises for admissible parameters: %s' % type(e).__name__, case, {'error': str(e)[:200]}, {'what': 'raises', 'model': name})
                ctx.case_done(case, False)
                continue
            tol = 1e-9 * (abs(b) + c0)
            sig = {'what': 'model-shape', 'model': name}
            if not (np.array_equal(vals, arr, equal_nan=True) and np.array_equal(vals, lst, equal_nan=True) and np.array_equal(vals, akw, equal_nan=True) and np.array_equal(vals[:20], skw, equal_nan=True)):
                ctx.problem('oracle', 'calling the model on an array differs from calling it element by element', case, None, {'what': 'array-vs-scalar', 'model': name})
            elif not np.all(np.isfinite(vals)):
                k = int(np.where(~np.isfinite(vals))[0][0])
                ctx.problem('oracle', 'model value is not finite', case, {'h': hs[k], 'value': float(vals[k])}, dict(sig, clause='finite'))
            elif vals[0] != b:
                ctx.problem('oracle', 'model at lag 0 is not the nugget', case, {'value': float(vals[0])}, dict(sig, clause='at-zero'))
            elif np.any(np.diff(vals) < -tol):
                k = int(np.where(np.diff(vals) < -tol)[0][0])
                ctx.problem('oracle', 'model decreases with the lag', case, {'h': [hs[k], hs[k + 1]], 'values': [float(vals[k]), float(vals[k + 1])]}, dict(sig, clause='monotone'))
            elif np.any(vals < b - tol) or np.any(vals > b + c0 + tol):
                ctx.problem('oracle', 'model leaves [nugget, nugget + sill]', case, {'min': float(vals.min()), 'max': float(vals.max())}, dict(sig, clause='bounds'))
            else:
                at_r = float(f(r, r, c0, *extra, b))
                level = 0.90 if name == 'matern' else 0.95
                if at_r < b + level * c0 - tol:
                    ctx.problem('oracle', 'model reaches only %.4f of the sill at the effective range' % ((at_r - b) / c0), case, {'at_range': at_r}, dict(sig, clause='effective-range'))
                if name in ('spherical', 'cubic'):
                    beyond = [float(f(h, r, c0, b)) for h in (r, np.nextafter(r, np.inf), 2 * r, 1e6 * r)]
                    if any(abs(x - (b + c0)) > tol for x in beyond):
                        ctx.problem('oracle', 'model is not exactly the sill at and beyond the effective range', case, {'values': beyond}, dict(sig, clause='sill-beyond-range'))
                far = float(f(r * 1e9, r, c0, *extra, b))
                if name == 'stable' and s < 0.2:
                    pass            # convergence is slower than any fixed multiple of the range for tiny shapes
                elif abs(far - (b + c0)) > 1e-6 * c0 + tol:
                    ctx.problem('oracle', 'model does not tend to nugget + sill for large lags', case, {'far': far}, dict(sig, clause='limit'))
            # the same call with an integer-typed range (and sill) must give the same value (compiled integer arithmetic wraps)
            if name in ('spherical', 'exponential', 'gaussian', 'cubic') and rng.random() < 0.5:
                ri = rng.choice([3, 17, 511, 512, 1000, 40000, 3000000])
                hh = [0.0, ri * 0.25, ri * 0.999, float(ri), ri * 2.5]
                try:
                    vi = [float(f(h, ri, 2, b)) for h in hh] + [float(f(h, np.int64(ri), 2.0, b)) for h in hh]
                    vf = [float(f(h, float(ri), 2.0, b)) for h in hh] * 2
                    if not all(gen.close(a_, b_, 1e-12, 1e-12) for a_, b_ in zip(vi, vf)):
                        ctx.problem('oracle', 'model called with an integer-typed range differs from the same call with a float range', dict(case, r_int=ri),
                                    {'int': vi[:5], 'float': vf[:5]}, {'what': 'int-vs-float-range', 'model': name})
                except Exception as e:
                    ctx.problem('oracle', 'model raises for an integer-typed range: %s' % type(e).__name__, dict(case, r_int=ri), None, {'what': 'raises', 'model': name})
            # other lag containers: a pandas Series whose index is not 0..n-1 (sorted / filtered lag column), a tuple
            try:
                import pandas as pd
                lagv = [4.0, 0.5, 9.0, 2.0, 0.0]
                args_ = ([float(r), float(c0)] + ([float(s)] if name in ('stable', 'matern') else []) + [float(b)])
                want_ = np.array([float(f(h_, *args_)) for h_ in lagv])
                for label, cont in (('series-shuffled-index', pd.Series(lagv, index=[3, 0, 4, 1, 2])), ('series-filtered', pd.Series([7.0] + lagv, index=range(10, 16))[1:]), ('tuple', tuple(lagv))):
                    got_ = np.asarray(f(cont, *args_), float)
                    if got_.shape != want_.shape or not all(gen.close(a_, b_, 1e-12, 1e-12) for a_, b_ in zip(got_, want_)):
                        ctx.problem('oracle', 'model called on a %s of lags differs from the element-wise calls in positional order' % label, dict(case, container=label),
                                    {'container_call': got_.tolist(), 'elementwise': want_.tolist()}, {'what': 'lag-container', 'model': name})
                        break
            except ImportError:
                ctx.count('pandas_missing')
            except Exception as e:
                ctx.problem('oracle', 'model raises on a lag container: %s %s' % (type(e).__name__, str(e)[:60]), case, None, {'what': 'lag-container-raises', 'model': name})
            # integer-typed sill / shape / nugget (plain Python ints) on lag arrays that start at lag 0 and elsewhere
            try:
                ipar = [7.5, 3] + ([2] if name in ('stable', 'matern') else []) + [rng.choice([0, 1])]
                for harr in ([0.0, 1.0, 2.0, 5.5], [1.0, 0.0, 2.0], np.array([0, 1, 2, 6])):
                    va = np.asarray(f(harr, *ipar), float)
                    vs = np.array([float(f(float(h_), *[float(p_) for p_ in ipar])) for h_ in np.asarray(harr, float)])
                    if va.shape != vs.shape or not all(gen.close(a_, b_, 1e-12, 1e-12) for a_, b_ in zip(va, vs)):
                        ctx.problem('oracle', 'model called on a lag array with integer-typed parameters differs from the element-wise float calls', dict(case, int_params=ipar, lags=np.asarray(harr).tolist()),
                                    {'array_call': va.tolist(), 'scalar_calls': vs.tolist()}, {'what': 'int-params-array', 'model': name})
                        break
            except Exception as e:
                ctx.count('int_params_rejected', name + ':' + type(e).__name__)
            # integer-typed lag arrays (pixel distances): same values as the float lags, for every model and dtype
            for dt_ in ('uint8', 'uint16', 'uint32', 'int32', 'int64', 'float32', 'float16'):
                hi_ = np.array([0, 1, 2, 5, 17, 200], dtype=dt_)          # exactly representable in every one of these types
                try:
                    args_ = ([float(r), float(c0)] + ([float(s)] if name in ('stable', 'matern') else []) + [float(b)])
                    vi = np.asarray(f(hi_, *args_), float)
                    vf = np.asarray(f(hi_.astype(float), *args_), float)
                    tol_ = (1e-12, 1e-12) if hi_.dtype.kind in 'iu' else (1e-9, 1e-9 * (abs(float(b)) + float(c0)))      # floating-point lag types: the compiled function may keep single-precision intermediates at the 1e-11 level
                    if vi.shape != vf.shape or not all(gen.close(a_, b_, *tol_) for a_, b_ in zip(vi, vf)):
                        ctx.problem('oracle', 'model evaluated on a lag array of type %s differs from the same lags as float64' % hi_.dtype, dict(case, lag_dtype=str(hi_.dtype)),
                                    {'int': vi.tolist(), 'float': vf.tolist()}, {'what': 'int-vs-float-lags', 'model': name})
                except Exception as e:
                    ctx.count('int_lags_rejected', name + ':' + type(e).__name__)
            ctx.case_done(case, True)
        # ---------- sum of models: slices against the model, sum = sum of components + single nugget
        nsum = 25 if not ctx.thorough() else 200
        kind, c = gen.point_set(rng, n=25, dim=2, kind='dyadic')
        _, v = gen.values(rng, len(c), 'dyadic')
        for t in range(nsum):
            names = [rng.choice(SINGLE[:5] if t % 3 else SINGLE) for _ in range(rng.randint(2, 4))]
            use_nugget = rng.random() < 0.5
            case = {'sum': '+'.join(names), 'use_nugget': use_nugget}
            ctx.count('sum_size', len(names))
            try:
                V = Variogram(c, v, model='+'.join(names), use_nugget=use_nugget, n_lags=8)
                slices = V._get_argpos_sum_models(names)
                cof = [float(x) for x in V.cof]
            except Exception as e:
                ctx.count('sum_rejected', type(e).__name__)
                continue
            sizes = [3 if n in ('stable', 'matern') else 2 for n in names]
            mb = model('slice_bounds', sizes, golden=(len(model.golden) < 20))
            if [[int(sl.start), int(sl.stop)] for sl in slices] != [[int(a), int(b_)] for a, b_ in mb]:
                ctx.problem('correspondence', 'argument slices of the sum model differ from SumModels.slice_bounds', case, {'impl': [[int(sl.start), int(sl.stop)] for sl in slices], 'model': mb})
                continue
            parts = model('split_args', sizes, cof)
            nug = cof[-1] if use_nugget else 0.0
            if len(cof) != sum(sizes) + (1 if use_nugget else 0):
                ctx.problem('oracle', 'number of fitted coefficients of the sum model is not sum(k_i) + nugget', case, {'len': len(cof)})
                continue
            if any(n in ('stable', 'matern') and cof[sum(sizes[:i]) + 2] <= 0 for i, n in enumerate(names)):
                ctx.count('sum_fit_shape_zero_skipped')       # the fit ran into shape 0: not an admissible parameter
                continue
            for h in (0.0, 0.5, 3.0, 17.0, 1e3):
                want = nug
                pos = 0
                try:
                    for nme, k in zip(names, sizes):
                        want += float(getattr(models, nme)(h, *cof[pos:pos + k], 0.0))
                        pos += k
                    got = float(V.fitted_model(h))
                except ZeroDivisionError:
                    ctx.count('sum_fit_degenerate_parameter_skipped')     # fitted range 0: not an admissible parameter
                    break
                if not gen.close(want, got, 1e-9, 1e-12):
                    ctx.problem('oracle', 'sum model differs from the sum of its components plus a single shared nugget', case, {'h': h, 'sum_model': got, 'components_plus_nugget': want})
                    break
            ctx.case_done(case, True)
        # ---------- a sum-model function keeps denoting its own sum after other sums were set on the same instance
        try:
            Vs = Variogram(c, v, model='spherical+gaussian', n_lags=8, fit_method=None)      # no fit needed: only the model functions are used
            kept = []
            for nm in ['spherical+stable', 'stable+spherical', 'exponential+gaussian+spherical', 'cubic+exponential', 'matern+spherical']:
                Vs.set_model(nm)
                names = nm.split('+')
                sizes = [3 if n_ in ('stable', 'matern') else 2 for n_ in names]
                args = []
                for n_, k_ in zip(names, sizes):
                    args += [12.0 + len(args), 3.0 + 0.5 * len(args)] + ([1.5] if k_ == 3 else [])
                args.append(0.75)
                kept.append((nm, Vs.model, names, sizes, args))
                for (nm0, fn0, names0, sizes0, args0) in kept:
                    for h in (0.0, 2.5, 9.0, 40.0):
                        want, pos = args0[-1], 0
                        for n_, k_ in zip(names0, sizes0):
                            want += float(getattr(models, n_)(h, *args0[pos:pos + k_], 0.0))
                            pos += k_
                        try:
                            got = float(fn0(h, *args0))
                        except Exception as e:
                            got = float('nan')
                        if not gen.close(want, got, 1e-9, 1e-12):
                            ctx.problem('oracle', 'the function of the sum model %s no longer equals the sum of its components after %s was set on the same instance' % (nm0, nm),
                                        {'sum': nm0, 'later': nm}, {'h': h, 'function': got, 'components_plus_nugget': want}, {'what': 'stale-sum-function'})
                            raise StopIteration
            ctx.tests['sum_function_reuse'] = len(kept)
        except StopIteration:
            pass
        except Exception as e:
            ctx.count('sum_reuse_rejected', type(e).__name__)
        vc.run_golden(ctx, coq, model)
    finally:
        model.close()
    ctx.extra['rule'] = ('IR round trip: random arguments over 6 decades; interval goals: rational arguments, generated definitions evaluated inside Coq against models.py at 1e-9; '
                         'oracle sweep: per parameter tuple ~150 lags (0, r and its float neighbours, 1e-9 r .. 1e9 r) x ranges/sills over 9 decades x shape/smoothness over the admissible interval; '
                         'sums of 2-4 models; non-trivial = every sweep tuple / sum')
    return core.finish(ctx, coq,
                       ['Coq 8.16.1 kernel; Interval tactic (reflexive checker over primitive floats/ints: the Uint63/PrimFloat/FloatAxioms constants it lists are the standard library\'s)',
                        'translator tools/py2coq.py (AST -> IR -> Coq text; decimal literals read as exact decimals) - validated by the IR round trip and the interval goals',
                        'Bessel K / Gamma (scipy.special) are parameters of the Matern definition: opaque', 'floating-point rounding of models.py (tolerance 1e-9 (|b|+c0) in the oracle)'],
                       ['Matern: bounded/monotone/limit proved only under the stated hypotheses on rho_s; its 90 % level at the effective range is evaluated numerically only',
                        'theorems are about the real-number meaning of the formulas'])
