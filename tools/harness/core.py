"""Common machinery of ./check: Coq build + assumption parsing, wire protocol to the extracted
model, in-Coq golden cases, evidence / replay / known-finding handling.

Every check is run as   ./check Cxx [--tier quick|thorough] [--replay file]
"""
import os, sys, re, json, time, subprocess, hashlib, random, math, fcntl, shutil
from fractions import Fraction

VERIF = os.path.abspath(os.path.join(os.path.dirname(__file__), '..', '..'))
COQ = os.path.join(VERIF, 'coq')
BUILD = os.path.join(VERIF, 'build')
REPO = os.environ.get('SKGSTAT_REPO', '/repo')

# axioms of the standard library that R-based files are allowed to depend on (DESIGN section 5)
ALLOWED_AXIOMS = {
    'ClassicalDedekindReals.sig_not_dec', 'ClassicalDedekindReals.sig_forall_dec',
    'FunctionalExtensionality.functional_extensionality_dep', 'Classical_Prop.classic',
}
FORBIDDEN = re.compile(r'\b(Admitted|admit|Axiom|Axioms|Parameter|Parameters|Conjecture|Conjectures|Admit Obligations)\b'
                       r'|Unset Guard Checking|Unset Positivity Checking|Unset Universe Checking|bypass_check|type-in-type|impredicative-set')


def sh(cmd, timeout=900, cwd=None, env=None):
    t0 = time.time()
    try:
        p = subprocess.run(cmd, shell=isinstance(cmd, str), cwd=cwd, env=env, timeout=timeout,
                           stdout=subprocess.PIPE, stderr=subprocess.STDOUT, text=True)
        return p.returncode, p.stdout, time.time() - t0
    except subprocess.TimeoutExpired as e:
        out = e.stdout if isinstance(e.stdout, str) else (e.stdout or b'').decode('utf8', 'replace')
        return 124, (out or '') + '\nTIMEOUT', time.time() - t0


class Lock:
    def __enter__(self):
        os.makedirs(BUILD, exist_ok=True)
        self.f = open(os.path.join(BUILD, '.lock'), 'w')
        fcntl.flock(self.f, fcntl.LOCK_EX)
        return self

    def __exit__(self, *a):
        fcntl.flock(self.f, fcntl.LOCK_UN)
        self.f.close()


# ------------------------------------------------------------------ wire protocol
def enc(v):
    if v is None:
        return 'n'
    if isinstance(v, bool):
        return 't' if v else 'f'
    if isinstance(v, int):
        return 'z' + format(v, 'x')
    if isinstance(v, float):
        if v != v or v in (float('inf'), float('-inf')):
            raise ValueError('non-finite float on the wire')
        n, d = v.as_integer_ratio()
        return 'q%s/%s' % (format(n, 'x'), format(d, 'x'))
    if isinstance(v, Fraction):
        return 'q%s/%s' % (format(v.numerator, 'x'), format(v.denominator, 'x'))
    if isinstance(v, (list, tuple)):
        return '[ ' + ' '.join(enc(x) for x in v) + ' ]'
    if hasattr(v, 'tolist'):
        return enc(v.tolist())
    if hasattr(v, 'item'):
        return enc(v.item())
    raise TypeError('cannot encode %r' % (v,))


def dec(text):
    toks = text.split()
    pos = 0

    def one():
        nonlocal pos
        t = toks[pos]
        pos += 1
        if t == '[':
            out = []
            while toks[pos] != ']':
                out.append(one())
            pos += 1
            return out
        if t == 'n':
            return None
        if t == 't':
            return True
        if t == 'f':
            return False
        if t[0] == 'z':
            return int(t[1:], 16)
        if t[0] == 'q':
            a, b = t[1:].split('/')
            return Fraction(int(a, 16), int(b, 16))
        raise ValueError('bad token ' + t)
    return one()


ERR = [-7777777, None, -7777777, False]


def coq_q(v):
    """Coq term of type Q for an exact rational / float (dyadic floats as  dy m e)."""
    fr = Fraction(v) if not isinstance(v, Fraction) else v
    n, d = fr.numerator, fr.denominator
    if d & (d - 1) == 0:           # dyadic
        e = -(d.bit_length() - 1)
        if n != 0 and e == 0:
            while n % 2 == 0 and abs(n) > 1 << 40:
                n //= 2
                e += 1
        return '(dy (%d) (%d))' % (n, e)
    return '(Qmake (%d) %d)' % (n, d)


def coq_val(v):
    if v is None:
        return 'VNone'
    if isinstance(v, bool):
        return '(VB %s)' % ('true' if v else 'false')
    if isinstance(v, int):
        return '(VZ (%d))' % v
    if isinstance(v, (float, Fraction)):
        return '(VQ %s)' % coq_q(v)
    if isinstance(v, (list, tuple)):
        return '(VL [' + '; '.join(coq_val(x) for x in v) + '])'
    if hasattr(v, 'tolist'):
        return coq_val(v.tolist())
    raise TypeError('cannot encode %r' % (v,))


class Model:
    """Persistent extracted-model process; one synchronous call per line."""

    def __init__(self):
        self.fn = {}
        src = open(os.path.join(COQ, 'Model', 'Dispatch.v')).read()
        for m in re.finditer(r'Definition fn_(\w+) : Z := (\d+)\.', src):
            self.fn[m.group(1)] = int(m.group(2))
        self.p = subprocess.Popen([os.path.join(BUILD, 'ocaml', 'driver')], stdin=subprocess.PIPE,
                                  stdout=subprocess.PIPE, text=True, bufsize=1)
        self.calls = 0
        self.golden = []          # (fname, args, result) kept for the in-Coq subset

    def __call__(self, fname, *args, golden=False):
        line = '%x %s\n' % (self.fn[fname], enc(list(args)))
        self.p.stdin.write(line)
        self.p.stdin.flush()
        out = self.p.stdout.readline()
        if not out:
            raise RuntimeError('model driver died on %s' % fname)
        self.calls += 1
        r = dec(out)
        if r == ERR:
            open(os.path.join(BUILD, 'rejected_line.txt'), 'w').write(line)
            raise RuntimeError('model decoder rejected arguments of %s: %s' % (fname, line[:300]))
        if golden:
            self.golden.append((fname, list(args), r))
        return r

    def close(self):
        try:
            self.p.stdin.close()
            self.p.wait(timeout=5)
        except Exception:
            self.p.kill()


# ------------------------------------------------------------------ Coq side
def cone(vfile):
    """Transitive SG-dependencies (relative .v paths) of a file under coq/."""
    seen, todo = [], [vfile]
    while todo:
        f = todo.pop()
        if f in seen:
            continue
        seen.append(f)
        p = os.path.join(COQ, f)
        if not os.path.exists(p):
            continue
        txt = strip_comments(open(p).read())
        for m in re.finditer(r'From SG Require (?:Import|Export)\s+(.*?)\.(?=\s|$)', txt, re.S):
            for mod in m.group(1).split():
                if re.fullmatch(r'[A-Za-z_0-9.]+', mod):
                    todo.append(mod.replace('.', '/') + '.v')
    return seen


STMT = re.compile(r'^\s*(?:#\[[^\]]*\]\s*)?(?:Local |Global )?(Theorem|Lemma|Corollary|Example|Proposition|Fact|Remark)\s+([A-Za-z_0-9\']+)', re.M)


def count_statements(files):
    out = {}
    for f in files:
        p = os.path.join(COQ, f)
        if os.path.exists(p):
            out[f] = [m.group(2) for m in STMT.finditer(strip_comments(open(p).read()))]
    return out


def strip_comments(s):
    out, depth, i = [], 0, 0
    while i < len(s):
        if s.startswith('(*', i):
            depth += 1
            i += 2
        elif s.startswith('*)', i) and depth:
            depth -= 1
            i += 2
        else:
            if not depth:
                out.append(s[i])
            i += 1
    return ''.join(out)


def hygiene(files):
    bad = []
    for f in files:
        p = os.path.join(COQ, f)
        if not os.path.exists(p):
            continue
        txt = strip_comments(open(p).read())
        for m in FORBIDDEN.finditer(txt):
            bad.append('%s: %s' % (f, m.group(0)))
        # Variable / Hypothesis outside a Section
        depth = 0
        for line in txt.splitlines():
            s = line.strip()
            if re.match(r'Section\s+\w+', s):
                depth += 1
            elif re.match(r'End\s+\w+\.', s) and depth:
                depth -= 1
            elif re.match(r'(Variable|Variables|Hypothesis|Hypotheses|Context)\b', s) and depth == 0:
                bad.append('%s: %s outside a Section' % (f, s.split()[0]))
    return bad


def parse_assumptions(out):
    """Parse the output of the Print Assumptions commands of a Properties file.
    Returns {theorem-ish block index: [axiom names]} flattened to a set and the closed count."""
    axioms, closed = set(), 0
    blocks = re.split(r'\n(?=Closed under the global context|Axioms:)', '\n' + out)
    for b in blocks:
        if b.startswith('Closed under the global context'):
            closed += 1
        elif b.startswith('Axioms:'):
            for line in b.splitlines()[1:]:
                m = re.match(r'^([A-Za-z_][\w.\']*)\s*(:|$)', line)
                if m:
                    axioms.add(m.group(1))
    return axioms, closed


class Coq:
    """regen -> make -> compile the property file (captures Print Assumptions) -> hygiene."""

    def __init__(self, pid, extra_targets=()):
        self.pid = pid
        self.prop_file = 'Properties/%s.v' % pid
        self.extra = list(extra_targets)
        self.broken = []      # list of dicts describing broken obligations
        self.log = ''
        self.axioms = set()
        self.closed = 0
        self.obligations = 0
        self.discharged = 0
        self.cmd = ''
        self.statements = {}
        self.translated = 0
        self.translation_log = ''

    def build(self, timeout=1500):
        with Lock():
            return self._build(timeout)

    def _build(self, timeout):
        # (T) regenerate the translated definitions from the current source, fail-closed
        env = dict(os.environ, SKGSTAT_REPO=REPO, PYTHONPATH=REPO)
        rc, out, _ = sh(['/venv/bin/python', os.path.join(VERIF, 'tools', 'py2coq.py')], env=env, timeout=120)
        self.translation_log = out
        m = re.search(r'translated (\d+) functions', out)
        self.translated = int(m.group(1)) if m else 0
        if rc != 0:
            for f in os.listdir(os.path.join(COQ, 'Gen')) if os.path.isdir(os.path.join(COQ, 'Gen')) else []:
                if f.endswith('.v'):
                    os.remove(os.path.join(COQ, 'Gen', f))
            self.broken.append({'kind': 'translation', 'file': 'tools/py2coq.py', 'lemma': 'translate', 'error': out.strip()[-400:]})
        rc, out, _ = sh([os.path.join(VERIF, 'tools', 'mkproject.sh')])
        files = cone(self.prop_file)
        for e in self.extra:
            files += [f for f in cone(e) if f not in files]
        self.statements = count_statements(files)
        self.obligations = sum(len(v) for v in self.statements.values())
        targets = [self.prop_file + 'o'] + [e + 'o' for e in self.extra] + ['Extract/Extract.vo']
        self.cmd = 'make -C coq -j16 ' + ' '.join(targets) + ' && coqc -Q coq SG coq/' + self.prop_file
        os.makedirs(os.path.join(BUILD, 'ocaml'), exist_ok=True)
        rc, out, dt = sh('timeout %d make -k -j16 %s' % (timeout, ' '.join(targets)), cwd=COQ, timeout=timeout + 30)
        self.log += out
        failed_files = set(re.findall(r'File "\./([^"]+)", line \d+, characters [\d-]+:\s*\nError', out))
        for m in re.finditer(r'File "\./([^"]+)", line (\d+), characters ([\d-]+):\s*\nError:?\s*((?:.*\n){0,6})', out):
            self.broken.append({'kind': 'proof', 'file': m.group(1), 'line': int(m.group(2)),
                                'lemma': self._lemma_at(m.group(1), int(m.group(2))),
                                'error': m.group(4).strip()[:400]})
        if rc != 0 and not self.broken:
            self.broken.append({'kind': 'proof', 'file': '?', 'line': 0, 'lemma': '?', 'error': out[-600:]})
        # which statements are discharged: those in files whose .vo is now up to date
        ok_files = [f for f in files if self._vo_ok(f)]
        self.discharged = sum(len(self.statements.get(f, [])) for f in ok_files)
        if self._vo_ok(self.prop_file):
            rc2, out2, _ = sh('timeout 300 coqc -Q . SG -w -notation-overridden %s' % self.prop_file, cwd=COQ, timeout=330)
            self.log += out2
            if rc2 != 0:
                self.broken.append({'kind': 'proof', 'file': self.prop_file, 'line': 0, 'lemma': '?', 'error': out2[-400:]})
            self.axioms, self.closed = parse_assumptions(out2)
            extra_ax = {a for a in self.axioms if a not in ALLOWED_AXIOMS and not a.startswith(('Uint63.', 'PrimFloat.', 'PrimInt63.', 'FloatAxioms', 'Sint63'))}
            if extra_ax:
                self.broken.append({'kind': 'axioms', 'file': self.prop_file, 'lemma': 'Print Assumptions',
                                    'error': 'axioms outside the allow-list: %s' % sorted(extra_ax)})
        bad = hygiene(files)
        if bad:
            self.broken.append({'kind': 'hygiene', 'file': bad[0].split(':')[0], 'lemma': 'hygiene', 'error': '; '.join(bad[:10])})
        # (re)build the extracted driver when the extracted model changed
        self._build_driver()
        return not self.broken

    def _vo_ok(self, f):
        v = os.path.join(COQ, f)
        vo = v + 'o'
        return os.path.exists(v) and os.path.exists(vo) and os.path.getmtime(vo) >= os.path.getmtime(v)

    def _lemma_at(self, f, line):
        try:
            lines = open(os.path.join(COQ, f)).read().splitlines()[:line]
        except OSError:
            return '?'
        for l in reversed(lines):
            m = STMT.match(l)
            if m:
                return m.group(2)
            m = re.match(r'\s*(Definition|Fixpoint|Goal)\s+(\w+)?', l)
            if m:
                return m.group(2) or 'Goal'
        return '?'

    def _build_driver(self):
        odir = os.path.join(BUILD, 'ocaml')
        ml = os.path.join(odir, 'model.ml')
        drv = os.path.join(odir, 'driver')
        src = os.path.join(VERIF, 'tools', 'ocaml', 'driver.ml')
        if not os.path.exists(ml):
            self.broken.append({'kind': 'extraction', 'file': 'Extract/Extract.v', 'lemma': 'Extraction', 'error': 'model.ml missing'})
            return
        if os.path.exists(drv) and os.path.getmtime(drv) >= max(os.path.getmtime(ml), os.path.getmtime(src)):
            return
        shutil.copy(src, os.path.join(odir, 'driver.ml'))
        rc, out, _ = sh('timeout 300 ocamlfind ocamlopt -w -a model.mli model.ml driver.ml -o driver.new && mv driver.new driver', cwd=odir, timeout=330)
        if rc != 0:
            self.broken.append({'kind': 'extraction', 'file': 'tools/ocaml/driver.ml', 'lemma': 'ocamlopt', 'error': out[-400:]})

    def coqchk(self):
        mod = 'SG.Properties.%s' % self.pid
        rc, out, dt = sh('timeout 1500 coqchk -silent -o -Q . SG %s' % mod, cwd=COQ, timeout=1530)
        return rc, out[-3000:], dt

    def interval_goals(self, goals, name=None, imports='Gen.Models'):
        """goals: list of Coq propositions over R (strings); each proved by `interval` in one generated file.
        Returns (number proved, list of failing goal indices, log)."""
        if not goals:
            return 0, [], ''
        os.makedirs(os.path.join(COQ, 'Cases'), exist_ok=True)
        name = name or ('%s_interval' % self.pid)
        path = os.path.join(COQ, 'Cases', name + '.v')
        with open(path, 'w') as f:
            f.write('From Coq Require Import Reals List.\nFrom Interval Require Import Tactic.\nFrom SG Require Import %s.\nImport ListNotations.\nLocal Open Scope R_scope.\n' % imports)
            for k, g in enumerate(goals):
                f.write('Goal %s.\nProof. idtac "GOAL %d". %s Qed.\n' % (g[0], k, g[1]))
        rc, out, dt = sh('timeout 900 coqc -Q . SG -w -notation-overridden,-ambiguous-paths Cases/%s.v' % name, cwd=COQ, timeout=930)
        started = [int(x) for x in re.findall(r'GOAL (\d+)', out)]
        if rc == 0:
            return len(goals), [], ''
        failing = [started[-1]] if started else [0]
        return (started[-1] if started else 0), failing, out[-600:]

    def golden(self, cases, name=None):
        """cases: list of (fname-id, args, expected) evaluated by vm_compute inside Coq.
        Returns (list of failing indices, log)."""
        if not cases:
            return [], ''
        os.makedirs(os.path.join(COQ, 'Cases'), exist_ok=True)
        name = name or ('%s_cases' % self.pid)
        path = os.path.join(COQ, 'Cases', name + '.v')
        with open(path, 'w') as f:
            f.write('From SG Require Import Base.Prelude Base.Val Model.Dispatch.\nLocal Open Scope Z_scope.\n')
            f.write('Definition cases : list (Z * val * val) := [\n')
            f.write(';\n'.join('  ((%d)%%Z, %s, %s)' % (fid, coq_val(a), coq_val(e)) for fid, a, e in cases))
            f.write('\n].\nEval vm_compute in (failing cases).\n')
        rc, out, dt = sh('timeout 600 coqc -Q . SG -w -notation-overridden Cases/%s.v' % name, cwd=COQ, timeout=630)
        m = re.search(r'=\s*\[(.*?)\]\s*:\s*list nat', out, re.S)
        if rc != 0 or not m:
            return None, out[-800:]
        body = m.group(1).strip()
        idx = [int(x.replace('%nat', '')) for x in body.split(';')] if body else []
        return idx, out[-200:]


# ------------------------------------------------------------------ check context
class Ctx:
    def __init__(self, pid, tier, seed):
        self.pid, self.tier, self.seed = pid, tier, seed
        self.rng = random.Random(seed * 1000003 + int(hashlib.sha1(pid.encode()).hexdigest()[:6], 16))
        self.t0 = time.time()
        self.evaluations = 0
        self.nontrivial = set()
        self.samples = []
        self.problems = []       # dicts: kind (oracle|correspondence|proof|translation|...), what, case, detail, sig
        self.dist = {}
        self.extra = {}
        self.tests = {}          # things that are tested, not proved (named, with counts)
        self.interval_goals = 0
        self.translations = 0
        self.golden_cases = 0
        self.disagreements_checked = 0

    def thorough(self):
        return self.tier == 'thorough'

    def count(self, key, sub=None):
        k = key if sub is None else '%s=%s' % (key, sub)
        self.dist[k] = self.dist.get(k, 0) + 1

    def case_done(self, case, nontrivial):
        self.evaluations += 1
        if nontrivial:
            self.nontrivial.add(hashlib.sha1(json.dumps(case, sort_keys=True, default=str).encode()).hexdigest())
        if len(self.samples) < 3 and nontrivial:
            self.samples.append(case)

    def problem(self, kind, what, case=None, detail=None, sig=None):
        p = {'kind': kind, 'what': what, 'case': case, 'detail': detail, 'sig': sig or {'what': what}}
        self.problems.append(p)
        return p


def jsonable(x):
    if isinstance(x, Fraction):
        return {'frac': [str(x.numerator), str(x.denominator)]}
    if isinstance(x, float):
        if x != x:
            return 'nan'
        if x in (float('inf'), float('-inf')):
            return 'inf' if x > 0 else '-inf'
        return x
    if isinstance(x, dict):
        return {str(k): jsonable(v) for k, v in x.items()}
    if isinstance(x, (list, tuple, set)):
        return [jsonable(v) for v in x]
    if hasattr(x, 'tolist'):
        return jsonable(x.tolist())
    if hasattr(x, 'item'):
        return jsonable(x.item())
    if isinstance(x, (int, str, bool)) or x is None:
        return x
    return repr(x)


def load_known():
    p = os.path.join(VERIF, 'known_findings.json')
    if not os.path.exists(p):
        return []
    return json.load(open(p)).get('findings', [])


def match_known(pid, prob, known):
    for k in known:
        if k.get('property') != pid or k.get('status') != 'known':
            continue
        sig = prob.get('sig') or {}
        if all(sig.get(a) == b for a, b in k.get('match', {}).items()):
            return k
    return None


def finish(ctx, coq, trusted, assumptions, level='proof', explanation=None):
    """Decide, write evidence and replay files, print VIOLATION / KNOWN-FINDING lines, return exit code."""
    if coq and ctx.thorough() and 'coqchk' not in ctx.extra:
        # independent re-check of the compiled property file and everything it depends on.  Developments over R
        # (Coquelicot / Interval in the cone) take more than 25 minutes in coqchk and are re-checked by coqc only.
        uses_r = False
        for f in cone('Properties/%s.v' % ctx.pid):
            pth = os.path.join(COQ, f)
            if os.path.exists(pth) and re.search(r'Require Import[^.]*\b(Reals|Coquelicot|Interval)\b', strip_comments(open(pth).read())):
                uses_r = True
        if uses_r:
            ctx.extra['coqchk'] = {'run': False, 'why': 'the development depends on Reals / Coquelicot / Interval: coqchk did not finish within 25 minutes on C03 (measured); coqc full .vo build only'}
        else:
            rc_, out_, dt_ = coq.coqchk()
            ctx.extra['coqchk'] = {'run': True, 'rc': rc_, 'seconds': round(dt_, 1), 'tail': out_[-1500:]}
            if rc_ != 0:
                coq.broken.append({'kind': 'proof', 'file': 'Properties/%s.v' % ctx.pid, 'lemma': 'coqchk', 'error': out_[-400:]})
    known = load_known()
    fired, viol = {}, []
    for p in ctx.problems:
        k = match_known(ctx.pid, p, known)
        if k is not None:
            fired.setdefault(k['id'], (k, 0))
            fired[k['id']] = (k, fired[k['id']][1] + 1)
        else:
            viol.append(p)
    for b in (coq.broken if coq else []):
        viol.append({'kind': b['kind'], 'what': 'obligation no longer checks: %s:%s' % (b.get('file'), b.get('lemma')),
                     'case': None, 'detail': b, 'sig': {'what': 'broken-obligation'}})
    for kid, (k, n) in sorted(fired.items()):
        print('KNOWN-FINDING: property=%s %s [%s, %d case(s) this run]' % (ctx.pid, k['description'], kid, n))
    rc = 0
    os.makedirs(os.path.join(VERIF, 'replays'), exist_ok=True)
    if viol:
        rc = 1
        # a concrete failing input = a problem of kind 'oracle' (the property itself evaluated on the implementation)
        concrete = [p for p in viol if p['kind'] == 'oracle' and p.get('case') is not None]
        others = [p for p in viol if p not in concrete]
        rep = concrete[0] if concrete else others[0]
        body = {'property': ctx.pid, 'seed': ctx.seed, 'tier': ctx.tier,
                'kind': rep['kind'], 'what': rep['what'], 'case': rep.get('case'), 'detail': rep.get('detail'),
                'broken_obligations': [p['detail'] for p in viol if p['kind'] in ('proof', 'axioms', 'hygiene', 'extraction', 'translation')],
                'all_problems': [{'kind': p['kind'], 'what': p['what']} for p in viol[:50]],
                'replay_cmd': './check %s --replay <this file>' % ctx.pid}
        h = hashlib.sha1(json.dumps(jsonable(body), sort_keys=True).encode()).hexdigest()[:12]
        path = os.path.join(VERIF, 'replays', '%s-%s.json' % (ctx.pid, h))
        json.dump(jsonable(body), open(path, 'w'), indent=1)
        tail = '' if concrete else ' no-failing-input-found'
        print('VIOLATION property=%s replay=%s%s' % (ctx.pid, path, tail))
        for p in viol[:8]:
            print('  - [%s] %s' % (p['kind'], p['what']))
    cov = {
        'obligations': (coq.obligations if coq else 0) + ctx.translations + ctx.interval_goals + ctx.golden_cases,
        'discharged': (coq.discharged if coq else 0) + ctx.translations + ctx.interval_goals + ctx.golden_cases,
        'checker_cmd': coq.cmd if coq else '',
        'trusted_base': trusted + (['axioms reported by Print Assumptions on this run: ' + (', '.join(sorted(coq.axioms)) or 'none (closed under the global context)')] if coq else []),
        'theorem_statements_per_file': {f: len(v) for f, v in (coq.statements.items() if coq else [])},
        'print_assumptions_closed_blocks': coq.closed if coq else 0,
        'translations': ctx.translations, 'interval_goals': ctx.interval_goals, 'in_coq_golden_cases': ctx.golden_cases,
        'evaluations': ctx.evaluations,
        'distinct_nontrivial': len(ctx.nontrivial),
        'rule': ctx.extra.pop('rule', ''),
        'samples': jsonable(ctx.samples) or ['(no non-trivial sample recorded)'],
        'disagreements_checked': ctx.disagreements_checked,
        'input_distribution': ctx.dist,
        'tested_not_proved': ctx.tests,
        'known_findings_fired': {k: n for k, (_, n) in fired.items()},
        'broken_obligations': [b for b in (coq.broken if coq else [])],
    }
    if explanation:
        cov['explanation'] = explanation
    cov.update(jsonable(ctx.extra))
    if viol:
        # a broken obligation is not discharged
        nb = len([p for p in viol if p['kind'] in ('proof', 'axioms', 'hygiene', 'extraction', 'translation')])
        cov['discharged'] = max(0, cov['discharged'] - nb) if cov['discharged'] == cov['obligations'] else cov['discharged']
    ev = {'property_id': ctx.pid, 'tier': ctx.tier, 'seed': ctx.seed, 'level': level, 'coverage': cov,
          'assumptions': assumptions, 'wall_s': round(time.time() - ctx.t0, 2), 'violations': len(viol)}
    os.makedirs(os.path.join(VERIF, 'evidence'), exist_ok=True)
    json.dump(ev, open(os.path.join(VERIF, 'evidence', '%s.json' % ctx.pid), 'w'), indent=1)
    print('%s tier=%s seed=%d: obligations %d/%d, cases %d (non-trivial %d), problems %d (known %d), %.1fs -> %s' % (
        ctx.pid, ctx.tier, ctx.seed, cov['discharged'], cov['obligations'], ctx.evaluations, len(ctx.nontrivial),
        len(ctx.problems), sum(n for _, n in fired.values()), time.time() - ctx.t0, 'FAIL' if rc else 'ok'))
    return rc
