"""C07 - ordinary kriging returns the solution of the ordinary-kriging system."""
import core, krige_common as kc, vario_common as vc


def run(ctx, replay=None):
    coq = core.Coq('C07')
    coq.build()
    model = core.Model()
    try:
        n = 50 if not ctx.thorough() else 500
        setups = [replay['case']] if replay and replay.get('case') else vc.corpus_cases('C07') + [kc.gen_setup(ctx.rng) for _ in range(n)]
        for s in setups:
            kc.check_setup(ctx, model, s)
        vc.run_golden(ctx, coq, model)
    finally:
        model.close()
    ctx.extra['rule'] = ('kriging set-ups: 10-40 observations (2-D/3-D, lattice/dyadic/clustered) x 6 models x manual or fitted variogram (range on an occurring distance half of the time) '
                         'x nugget x min/max_points x 3 solvers x sparse/dense x 3 metrics; 6-14 targets each (inside, outside, far, at observations); non-trivial = >= 2 solved targets')
    return core.finish(ctx, coq, kc.TRUSTED, kc.ASSUME)
