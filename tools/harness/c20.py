"""C20 - metric spaces hold true distances; neighbour search = nearest N within range."""
import math
import numpy as np
from fractions import Fraction
from scipy import sparse
import core, gen, krige_common as kc, vario_common as vc
from skgstat import MetricSpace, MetricSpacePair, ProbabalisticMetricSpace


def exact_root(ex):
    rn, rd = math.isqrt(ex.numerator), math.isqrt(ex.denominator)
    return (rn * rn == ex.numerator and rd * rd == ex.denominator), (rn / rd if rd else 0.0)


def true_close(dfloat, ex, metric):
    dd = Fraction(float(dfloat)) ** 2 if metric == 'euclidean' else Fraction(float(dfloat))
    return abs(dd - ex) <= Fraction(1, 10 ** 12) * max(1, ex)


def run(ctx, replay=None):
    coq = core.Coq('C20')
    coq.build()
    model = core.Model()
    rng = ctx.rng
    try:
        n = 60 if not ctx.thorough() else 600
        cases = [replay['case']] if replay and replay.get('case') else vc.corpus_cases('C20')
        while len(cases) < n:
            kind, c = gen.point_set(rng, nmax=26)
            metric = rng.choice(['euclidean', 'euclidean', 'cityblock', 'chebyshev', 'minkowski'])
            exm_ = 'cityblock' if metric == 'minkowski' else metric       # minkowski is used with the keyword argument p=1
            npts = len(c)
            ex = {}
            for a in range(npts):
                for b in range(a + 1, npts):
                    ex[(a, b)] = gen.exact_dist(c[a], c[b], exm_)
            reps = sorted({exact_root(e)[1] for e in ex.values() if exact_root(e)[0] and e > 0}) if metric == 'euclidean' else sorted({float(e) for e in ex.values() if e > 0})
            form = rng.choice(['none', 'occurring', 'occurring', 'generic'])
            if form == 'occurring' and reps:
                md = rng.choice(reps)
            elif form == 'none':
                md = None
            else:
                md = float(max(float(x) ** (0.5 if metric == 'euclidean' else 1) for x in ex.values())) * rng.uniform(0.2, 0.9) if ex else 1.0
                md = round(md * 16) / 16.0 + 1.0 / 128
            cases.append({'coords': c.tolist(), 'metric': metric, 'mkw': ({'p': 1} if metric == 'minkowski' else {}), 'max_dist': md, 'N': rng.randint(1, npts + 1),
                          'tags': {'points': kind, 'dim': int(c.shape[1]), 'n': npts, 'max_dist_form': form if md is not None else 'none'}})
        for case in cases:
            for k, v in case['tags'].items():
                ctx.count(k, v)
            ctx.count('metric', case['metric'])
            c = np.array(case['coords'], float)
            npts = len(c)
            impl_metric, mkw = case['metric'], dict(case.get('mkw') or {})
            metric = 'cityblock' if impl_metric == 'minkowski' else impl_metric       # the metric the exact reference uses
            md, N = case['max_dist'], case['N']
            space = lambda pts, lim: MetricSpace(pts, impl_metric, lim, dist_metric_kwargs=dict(mkw))
            ex = lambda a, b: gen.exact_dist(c[a], c[b], metric)
            within = lambda a, b: (ex(a, b) <= (Fraction(md) ** 2 if metric == 'euclidean' else Fraction(md))) if md is not None else True
            try:
                caller = c.copy()
                ms = space(caller, md)
                D = ms.dists
                # the caller re-uses its buffer: the space keeps describing the points it was built from
                caller *= 2.0
                caller += 1.0
            except Exception as e:
                ctx.count('rejected', type(e).__name__)
                ctx.case_done(case, False)
                continue
            if not np.array_equal(np.asarray(ms.coords, float), c):
                ctx.problem('oracle', 'the metric space follows later writes into the array it was built from (its points are no longer the points its distances belong to)', case, None, {'what': 'space-aliases-caller'})
            is_sparse = sparse.issparse(D)
            ctx.count('storage', 'sparse' if is_sparse else 'dense')
            ctx.disagreements_checked += 1
            bad = False
            if not is_sparse:
                D = np.asarray(D)
                if D.shape != (npts, npts) or not np.array_equal(D, D.T) or np.any(np.diag(D) != 0):
                    ctx.problem('oracle', 'dense distance matrix is not symmetric with zero diagonal', case, None)
                    bad = True
                else:
                    for a in range(npts):
                        for b in range(a + 1, npts):
                            if not true_close(D[a, b], ex(a, b), metric):
                                ctx.problem('oracle', 'distance matrix entry is not the distance of its two points', case, {'pair': [a, b], 'stored': float(D[a, b]), 'exact': float(ex(a, b))})
                                bad = True
                                break
                        if bad:
                            break
            else:
                Dd = D.todok()
                stored = {(int(a), int(b)): float(v) for (a, b), v in Dd.items()}
                for a in range(npts):
                    for b in range(npts):
                        if a == b:
                            continue
                        key = (a, b)
                        should = within(min(a, b), max(a, b))
                        if should != (key in stored):
                            ctx.problem('oracle', 'truncated metric space does not store exactly the pairs with distance <= max_dist', case,
                                        {'pair': [a, b], 'exact_distance': float(ex(min(a, b), max(a, b))) ** (0.5 if metric == 'euclidean' else 1), 'max_dist': md, 'stored': key in stored})
                            bad = True
                            break
                        if key in stored and not true_close(stored[key], ex(min(a, b), max(a, b)), metric):
                            ctx.problem('oracle', 'stored distance is not the true distance', case, {'pair': [a, b], 'stored': stored[key]})
                            bad = True
                            break
                    if bad:
                        break
            # ---- neighbour search of a pair: queries = a subset of shifted points, against the same observation set
            q = c[: max(2, npts // 3)] + (0.0 if rng.random() < 0.5 else 0.5)
            try:
                msq = space(q.copy(), md)
                pair = MetricSpacePair(msq, ms)
                PD = pair.dists
                dense_ref = MetricSpacePair(space(q.copy(), None), space(c.copy(), None))
            except Exception as e:
                ctx.count('pair_rejected', type(e).__name__)
                ctx.case_done(case, not bad)
                continue
            for i in range(len(q)):
                impl = [int(x) for x in pair.find_closest(i, md, N)]
                if sparse.issparse(PD):
                    row = PD.getrow(i)
                    ridx = [int(k[1]) for k in row.todok().keys()]
                    mi = model('closest', [[j, float(row[0, j])] for j in ridx], N, golden=(len(ridx) <= 8 and len(model.golden) < 40))
                else:
                    rowv = [float(x) for x in np.asarray(PD[i, :]).ravel()]
                    mi = model('find_closest_dense', rowv, md, N, golden=(len(rowv) <= 10 and len(model.golden) < 40))
                stop = False
                if mi != impl:
                    ctx.problem('correspondence', 'find_closest differs from Kriging.closest', case, {'query': i, 'model': mi, 'impl': impl})
                    stop = True
                # the space's own maximum distance applies when the argument is left out
                try:
                    dflt = [int(x) for x in pair.find_closest(i, N=N)]
                    if dflt != impl:
                        ctx.problem('oracle', 'find_closest without an explicit max_dist differs from the call that repeats the space\'s max_dist', case,
                                    {'query': i, 'explicit': impl, 'default': dflt, 'max_dist': md}, {'what': 'default-max-dist'})
                        stop = True
                except Exception as e:
                    ctx.count('default_call_rejected', type(e).__name__)
                # oracle: exactly the N nearest among those within max_dist (all if fewer), by exact distances
                exq = [gen.exact_dist(q[i], c[j], metric) for j in range(npts)]
                lim = None if md is None else (Fraction(md) ** 2 if metric == 'euclidean' else Fraction(md))
                cand = [j for j in range(npts) if lim is None or exq[j] <= lim]
                want_n = min(N, len(cand))
                sel_d = sorted(exq[j] for j in impl)
                best_d = sorted(exq[j] for j in cand)[:want_n]
                if len(impl) != want_n or len(set(impl)) != len(impl) or any(j not in cand for j in impl) or sel_d != best_d:
                    ctx.problem('oracle', 'neighbour search does not return exactly the N nearest points within the maximum distance', case,
                                {'query': i, 'N': N, 'returned': impl, 'candidates_within': len(cand)}, {'what': 'nearest-N', 'storage': 'sparse' if sparse.issparse(PD) else 'dense'})
                    break
                if stop:
                    break
                if md is not None:
                    other = [int(x) for x in dense_ref.find_closest(i, md, N)]
                    if sorted(exq[j] for j in other) != sel_d:
                        ctx.problem('oracle', 'sparse and dense storage return different neighbours', case, {'query': i, 'sparse': impl, 'dense': other}, {'what': 'sparse-vs-dense-neighbours'})
                        break
            # ---- diagonal(idx): condensed sub-matrix
            try:
                idx = np.array(rng.sample(range(npts), min(npts, rng.randint(2, 6))))          # in the caller's order (not ascending)
                cond = np.asarray(ms.diagonal(idx), float)
                k = 0
                for a in range(len(idx)):
                    for b in range(a + 1, len(idx)):
                        e = ex(int(idx[a]), int(idx[b]))
                        if math.isinf(cond[k]):
                            okk = is_sparse and not within(int(idx[a]), int(idx[b]))
                        else:
                            okk = true_close(cond[k], e, metric)
                        if not okk:
                            ctx.problem('oracle', 'diagonal(idx) entry is not the distance of the two selected points (inf only beyond max_dist)', case, {'pair': [int(idx[a]), int(idx[b])], 'value': float(cond[k])})
                        k += 1
            except Exception as e:
                ctx.count('diagonal_rejected', type(e).__name__)
            ctx.case_done(case, not bad and npts >= 4)
        # ---- probabilistic metric space: only true distances between sampled points; reproducible per seed (incl. 0)
        npm = 20 if not ctx.thorough() else 200
        for t in range(npm):
            kind, c = gen.point_set(rng, n=rng.randint(8, 24), dim=2, kind=rng.choice(['lattice', 'dyadic']))
            seed = rng.choice([0, 0, 1, 42, 1306])
            md = rng.choice([None, 3.0, 5.0])
            samples = rng.choice([0.5, 0.7, 5])
            case = {'prob': True, 'coords': c.tolist(), 'seed': seed, 'max_dist': md, 'samples': samples}
            try:
                np.random.seed(t)
                p1 = ProbabalisticMetricSpace(c.copy(), 'euclidean', md, samples=samples, rnd=seed)
                d1 = p1.dists.tocoo()
                np.random.seed(t + 1000)
                p2 = ProbabalisticMetricSpace(c.copy(), 'euclidean', md, samples=samples, rnd=seed)
                d2 = p2.dists.tocoo()
            except Exception as e:
                ctx.count('prob_rejected', type(e).__name__)
                continue
            if not (np.array_equal(p1.lidx, p2.lidx) and np.array_equal(p1.ridx, p2.ridx) and np.array_equal(d1.toarray(), d2.toarray())):
                ctx.problem('oracle', 'probabilistic metric space is not reproducible for a given seed', case, {'seed': seed}, {'what': 'prob-seed'})
            L, R = set(int(x) for x in p1.lidx), set(int(x) for x in p1.ridx)
            for a, b, v in zip(d1.row, d1.col, d1.data):
                e = gen.exact_dist(c[int(a)], c[int(b)], 'euclidean')
                if int(a) not in L or int(b) not in R or not true_close(v, e, 'euclidean') or (md is not None and v > md * (1 + 1e-12)):
                    ctx.problem('oracle', 'probabilistic metric space holds an entry that is not a true distance between sampled points', case, {'entry': [int(a), int(b), float(v)]})
                    break
            ctx.case_done(case, True)
        vc.run_golden(ctx, coq, model)
    finally:
        model.close()
    ctx.extra['rule'] = ('point sets n<=26 in 1-3 dimensions x 3 metrics x max_dist in {None, an exactly representable occurring distance, generic}; matrix entries / stored pairs against exact rational distances; '
                         'find_closest for every query x N in 1..n+1 against the model and against exact nearest-N; diagonal(idx); probabilistic spaces x seeds incl. 0; non-trivial = n >= 4 and matrix correct')
    return core.finish(ctx, coq, kc.TRUSTED, ['cKDTree.sparse_distance_matrix / pdist / cdist are the trusted leaves whose contract (all pairs within r, true distances) this check tests against exact rational arithmetic'])
