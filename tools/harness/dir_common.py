"""Shared machinery for the directional variogram checks C12 / C13."""
import math, sys, os, warnings
import numpy as np
from scipy.spatial.distance import pdist
import core, gen
warnings.filterwarnings('ignore')
from skgstat import DirectionalVariogram, Variogram
sys.path.insert(0, os.path.join(core.VERIF, 'tools'))
import py2coq

TRUSTED = [
    'Coq 8.16.1 kernel; axioms of the standard library reals (see Print Assumptions output)',
    'translator tools/py2coq.py for _compass, _triangle and the pair-angle assignments of _calc_direction_mask_data (validated per pair by evaluating the IR against the implementation\'s mask)',
    'extraction (ExtrOcamlBasic only) + tools/ocaml/driver.ml for the masked grouping model',
    'correspondence harness; numpy arccos/sin/where kernels and floating-point rounding (pairs within 1e-9 of the tolerance / bandwidth boundary are excluded, as the property states)',
]
MARGIN = 1e-9


def gen_case(rng, nmax=25):
    kind = rng.choice(['lattice', 'lattice', 'dyadic', 'dyadic', 'dups', 'clustered'])
    _, c = gen.point_set(rng, n=rng.randint(5, nmax), dim=2, kind=kind)
    _, v = gen.values(rng, len(c))
    dmax = float(pdist(c).max())
    bw = rng.choice(['q33', 'q50', 'q10', round(dmax * rng.uniform(0.05, 0.6) * 8) / 8.0 + 1.0 / 64, dmax * 2])
    return {'coords': c.tolist(), 'values': v.tolist(),
            'azimuth': rng.choice([0, 45, 90, -45, 135, 180, -180, -90, 30, -120, 100, 170, -170, rng.randint(-180, 180), rng.uniform(-180, 180)]),
            'tolerance': rng.choice([0, 10, 22.5, 45, 90, 120, 180, 270, 360, rng.uniform(0, 360)]),
            'bandwidth': bw, 'model': rng.choice(['compass', 'triangle']), 'n_lags': rng.randint(2, 8),
            'estimator': rng.choice(['matheron', 'cressie', 'dowd']), 'bin_func': rng.choice(['even', 'even', 'uniform', 'ward']),
            'maxlag': rng.choice([None, None, 0.6, 'median']), 'dist_func': rng.choice(['euclidean', 'euclidean', 'euclidean', 'cityblock', 'chebyshev']),
            'coords_dtype': (rng.choice([None, 'uint16', 'int32', 'uint8']) if (np.all(c == np.round(c)) and c.min() >= 0 and c.max() < 250) else None),
            'tags': {'points': kind, 'n': len(c)}}


def build(case, **over):
    kw = dict(azimuth=case['azimuth'], tolerance=case['tolerance'], bandwidth=case['bandwidth'], directional_model=case['model'],
              n_lags=case['n_lags'], estimator=case['estimator'], bin_func=case['bin_func'], maxlag=case['maxlag'],
              fit_method='manual', fit_range=1.0, fit_sill=1.0, dist_func=case.get('dist_func', 'euclidean'))
    kw.update(over)
    coords = np.array(over.pop('coords', case['coords']), float) if 'coords' in over else np.array(case['coords'], float)
    kw.pop('coords', None)
    if case.get('coords_dtype') and 'coords' not in over and np.all(coords == np.round(coords)) and coords.min() >= 0:
        coords = coords.astype(case['coords_dtype'])          # pixel / raster indices are legitimate coordinates
    return DirectionalVariogram(coords, np.array(case['values'], float), **kw)


def resolved_bandwidth(case):
    """the bandwidth as the caller gave it: a number is used as it is (also beyond the largest distance), 'qNN' is the
    NN-th percentile of the pairwise distances"""
    bw = case['bandwidth']
    if isinstance(bw, str):
        return float(np.percentile(pdist(np.array(case['coords'], float), case.get('dist_func', 'euclidean')), int(bw[1:])))
    return float(bw)


def geometry(case, c=None, azimuth=None, tolerance=None, bandwidth=None, model=None):
    """brute-force selection from raw coordinates: (selected, near_boundary, degenerate) per pair i<j"""
    c = np.array(case['coords'] if c is None else c, float)
    az = math.radians(case['azimuth'] if azimuth is None else azimuth)
    tol = case['tolerance'] if tolerance is None else tolerance
    model = model or case['model']
    a = np.array([math.cos(az), -math.sin(az)])          # 0 degrees = East, positive clockwise
    i, j = np.triu_indices(len(c), 1)
    u = c[i] - c[j]
    n = np.hypot(u[:, 0], u[:, 1])
    deg = n == 0
    with np.errstate(invalid='ignore', divide='ignore'):
        ang = np.degrees(np.arccos(np.clip(np.abs(u.dot(a)) / n, 0, 1)))
    off = np.abs(u[:, 1] * a[0] - u[:, 0] * a[1])
    sel = ang <= tol / 2.0
    # arccos is ill-conditioned near 0 degrees: an exact alignment comes out as ~1e-6 degrees
    near = np.abs(ang - tol / 2.0) <= 1e-5
    if model == 'triangle':
        bw = bandwidth
        sel = sel & (off <= bw / 2.0)
        near = near | (np.abs(off - bw / 2.0) <= 1e-9 * max(1.0, bw))
    sel[deg] = False
    return sel, near, deg
