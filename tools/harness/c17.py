"""C17 - jackknife cross-validation scores are those of true leave-one-out kriging."""
import math
import numpy as np
import core, gen, krige_common as kc, vario_common as vc
from skgstat.util.cross_validation import jacknife


def run(ctx, replay=None):
    coq = core.Coq('C17')
    coq.build()
    model = core.Model()
    rng = ctx.rng
    try:
        n = 14 if not ctx.thorough() else 140
        cases = [replay['case']] if replay and replay.get('case') else vc.corpus_cases('C17')
        while len(cases) < n:
            s = kc.gen_setup(rng, nmax=32, allow_metric=True)
            if s['tags']['dim'] != 2:
                continue
            if rng.random() < 0.5:
                # a few isolated points that cannot be estimated after removal
                c = np.array(s['coords'])
                far = c.max(axis=0) + np.array([[40.0, 40.0], [80.0, -50.0], [-90.0, 70.0]])[: rng.randint(1, 3)]
                s['coords'] = np.vstack((c, far)).tolist()
                s['values'] = list(s['values']) + [float(rng.randint(-8, 8)) for _ in range(len(far))]
                s['tags']['isolated'] = len(far)
            s['min_points'], s['max_points'] = 5, 15          # defaults used by cross_validation._interpolate
            s['cv_n'] = rng.choice([None, None, max(3, len(s['coords']) // 2), len(s['coords']) - 1])
            s['cv_seed'] = rng.choice([0, 1, 42, 2 ** 31, 7])
            nsmall = sum(1 for c_ in cases if c_.get('tags', {}).get('unit') == '1e-4')
            if (rng.random() < 0.3 or nsmall < 2) and s['vkw'].get('fit_method') == 'manual' and not s.get('mkw'):
                # the same field in a small unit: values * 1e-4, sill and nugget * 1e-8 (a tiny nugget is still a nugget)
                s['values'] = [x * 1e-4 for x in s['values']]
                s['vkw'] = dict(s['vkw'], fit_sill=s['vkw']['fit_sill'] * 1e-8, fit_nugget=max(s['vkw'].get('fit_nugget', 0.0), 0.5) * 1e-8)
                s['tags'] = dict(s['tags'], unit='1e-4')
            elif rng.random() < 0.35:
                # observations recorded as whole numbers with an integer dtype
                s['values'] = [float(round(x)) for x in s['values']]
                s['values_dtype'] = rng.choice(['int64', 'int32'])
            cases.append(s)
        for s in cases:
            for k, v in s['tags'].items():
                ctx.count(k, v)
            ctx.count('values_dtype', str(s.get('values_dtype')))
            try:
                V = kc.make_variogram(s)
                N = len(V.coordinates)
            except Exception as e:
                ctx.count('rejected', type(e).__name__)
                ctx.case_done(s, False)
                continue
            # cross-validation after a setting was changed on the living instance = cross-validation of a fresh variogram
            if rng.random() < 0.5 and not s.get('mkw'):
                try:
                    Vl = kc.make_variogram(s)
                    first = Vl.cross_validate(n=s['cv_n'], metric='rmse', seed=s['cv_seed'])
                    other = rng.choice([m_ for m_ in ('spherical', 'exponential', 'gaussian') if m_ != s['model']])
                    Vl.model = other
                    second = Vl.cross_validate(n=s['cv_n'], metric='rmse', seed=s['cv_seed'])
                    s2 = dict(s, model=other, vkw={k_: v_ for k_, v_ in s['vkw'].items() if k_ != 'fit_shape'})
                    fresh = kc.make_variogram(s2).cross_validate(n=s['cv_n'], metric='rmse', seed=s['cv_seed'])
                    if not gen.close(second, fresh, 1e-9, 1e-12):
                        ctx.problem('oracle', 'cross-validation after assigning another model on the instance is not the score of that model', s,
                                    {'model_before': s['model'], 'model_after': other, 'score_before': float(first), 'score_after': float(second), 'fresh': float(fresh)}, {'what': 'stale-score'})
                    ctx.tests['in_place_model_changes'] = ctx.tests.get('in_place_model_changes', 0) + 1
                except Exception as e:
                    ctx.count('inplace_cv_rejected', type(e).__name__)
            ok_any = False
            combos = [(s['cv_n'], s['cv_seed'], m) for m in ('rmse', 'mse', 'mae')] + [(max(3, N // 2), 0, 'rmse')]
            for cv_n, cv_seed, metric in combos:
                size = cv_n if cv_n is not None else N
                try:
                    sc1 = V.cross_validate(n=cv_n, metric=metric, seed=cv_seed)
                    sc2 = jacknife(V, cv_n, metric, cv_seed)
                except Exception as e:
                    ctx.count('cv_rejected', type(e).__name__)
                    continue
                # the metric name is documented as case-insensitive: every accepted spelling selects the same score
                spell = rng.choice([metric.upper(), metric.capitalize(), metric[:1] + metric[1:].upper()])
                try:
                    sc3 = V.cross_validate(n=cv_n, metric=spell, seed=cv_seed)
                    if not gen.close(sc1, sc3, 1e-12):
                        ctx.problem('oracle', 'metric %r returns another score than %r' % (spell, metric), s, {'metric': metric, 'spelling': spell, 'lower': float(sc1), 'spelled': float(sc3)}, {'what': 'metric-spelling'})
                except ValueError:
                    ctx.count('spelling_rejected', spell)
                if not gen.close(sc1, sc2, 1e-12) :
                    ctx.problem('oracle', 'a seeded cross-validation is not reproducible', s, {'metric': metric, 'first': float(sc1), 'second': float(sc2)}, {'what': 'seed-reproducible'})
                idx = np.random.default_rng(cv_seed).choice(N, replace=False, size=size)
                coords = np.asarray(V.coordinates, float)
                vals = np.asarray(V.values, float)
                res, tie = [], False
                for i in idx:
                    cdel = np.delete(coords, i, axis=0)
                    vdel = np.delete(vals, i)
                    # the kriging instance removes duplicated coordinates itself
                    _, keep = np.unique(cdel, axis=0, return_index=True)
                    keep = np.sort(keep)
                    # the jackknife always kriges with the default solver (explicit inverse): its conditioning threshold applies
                    bz, bs, st = kc.brute_force(V, dict(s, solver='inv'), coords[i], coords=cdel[keep], values=vdel[keep])
                    if st in ('tie', 'illcond'):
                        tie = True
                        break
                    res.append(None if st == 'nan' else bz - vals[i])
                if tie:
                    ctx.count('loo_skipped_tie_or_illcond')
                    continue
                estim = [r for r in res if r is not None]
                ctx.count('unestimable_points', len(res) - len(estim))
                if not estim:
                    want = float('nan')
                else:
                    gm = model('mse' if metric != 'mae' else 'mae', [None if r is None else float(r) for r in res]) if False else None
                    if metric == 'mse':
                        want = float(np.mean(np.square(estim)))
                    elif metric == 'rmse':
                        want = float(np.sqrt(np.mean(np.square(estim))))
                    else:
                        want = float(np.mean(np.abs(estim)))
                ok_any = True
                if not gen.close(want, sc1, 1e-6, 1e-8):
                    ctx.problem('oracle', 'jackknife %s differs from the score of true leave-one-out kriging over the estimable points' % metric, s,
                                {'metric': metric, 'impl': float(sc1), 'leave_one_out': want, 'estimable': len(estim), 'selected': len(res)}, {'what': 'loo-score', 'metric': metric})
            ctx.case_done(s, ok_any)
        # the nan-aware score definitions against the model on synthetic residual vectors
        for t in range(40):
            r = [None if rng.random() < 0.3 else rng.randint(-64, 64) / 8.0 for _ in range(rng.randint(1, 9))]
            for name, fn in (('mse', lambda d: np.nanmean(np.power(d, 2))), ('mae', lambda d: np.nanmean(np.abs(d)))):
                mv = model(name, r, golden=(len(model.golden) < 30))
                d = np.array([np.nan if x is None else x for x in r], float)
                iv = float(fn(d)) if any(x is not None for x in r) else float('nan')
                if not ((mv is None and iv != iv) or (mv is not None and gen.close(float(mv), iv, 1e-12))):
                    ctx.problem('correspondence', 'nan-aware %s differs from Jackknife.%s' % (name, name), {'residuals': r}, {'model': mv, 'impl': iv})
        vc.run_golden(ctx, coq, model)
    finally:
        model.close()
    ctx.extra['rule'] = ('2-D kriging set-ups (as C07) with 0-3 isolated points that cannot be estimated after removal; n in {all, N/2, N-1}, seeds incl. 0; '
                         'each of rmse/mse/mae compared with a brute-force leave-one-out (held-out point deleted, OK system solved with numpy); non-trivial = a score was compared')
    return core.finish(ctx, coq, kc.TRUSTED + ['numpy default_rng determinism (index choice re-derived with the same seed)'], kc.ASSUME)
