"""C19 - uncertainty propagation: ordered, reproducible bounds; source left untouched."""
import sys, copy, warnings
import numpy as np
import core, gen, vario_common as vc, fit_common as fc
warnings.filterwarnings('ignore')
from skgstat import Variogram
from skgstat.util import uncertainty as unc
umod = sys.modules['skgstat.util.uncertainty']


class MemberRecorder:
    """wraps the name Variogram used inside util/uncertainty.py to capture every Monte-Carlo member"""

    def __init__(self):
        self.members = []
        self.inner = umod.Variogram

    def __enter__(self):
        rec = self

        class Rec(self.inner):
            def __init__(s, *a, **k):
                super().__init__(*a, **k)
                rec.members.append(s)
        umod.Variogram = Rec
        return self

    def __exit__(self, *a):
        umod.Variogram = self.inner


def member_results(members, evalf, eval_at):
    out = {k: [] for k in evalf}
    for m in members:
        if 'experimental' in evalf:
            out['experimental'].append(np.asarray(m.experimental, float))
        if 'parameter' in evalf:
            out['parameter'].append(np.asarray(m.parameters, float))
        if 'model' in evalf:
            x = np.linspace(0, np.max(m.bins), eval_at)
            out['model'].append(np.asarray(m.fitted_model(x), float))
    return out


def source_state(V):
    d = V.describe()
    return {'values': np.asarray(V.values, float).copy(), 'params': {k: (v if not isinstance(v, np.ndarray) else v.tolist()) for k, v in d.get('params', {}).items()},
            'bins': np.asarray(V.bins, float).copy(), 'exp': np.asarray(V.experimental, float).copy(), 'cof': np.asarray(V.cof, float).copy() if V.cof is not None else None,
            'n_lags': V.n_lags, 'maxlag': V.maxlag, 'kwargs': repr(sorted((k, repr(v)) for k, v in V._kwargs.items())),
            'described_kwargs': repr(sorted((k, repr(v)) for k, v in d.get('kwargs', {}).items()))}


def state_equal(a, b):
    for k in a:
        x, y = a[k], b[k]
        if isinstance(x, np.ndarray) or isinstance(y, np.ndarray):
            if x is None or y is None or np.asarray(x).shape != np.asarray(y).shape or not np.array_equal(np.asarray(x, float), np.asarray(y, float), equal_nan=True):
                return k
        elif x != y and not (x != x and y != y):
            return k
    return None


def run(ctx, replay=None):
    coq = core.Coq('C19')
    coq.build()
    model = core.Model()
    rng = ctx.rng
    try:
        n = 16 if not ctx.thorough() else 160
        import random
        for t in range(n):
            unit = rng.random() < 0.4
            c, v = fc.field(random.Random(rng.randrange(10 ** 6)), n=rng.randint(25, 40))
            if unit:
                c = c / 100.0            # coordinates in the unit square: a resolved maxlag below 1
            maxlag = rng.choice([None, 'median', 'mean', 0.5, 0.8, (60.0 if not unit else None)])
            kw = dict(model=rng.choice(['spherical', 'exponential', 'gaussian', 'stable']), n_lags=rng.randint(5, 9), maxlag=maxlag,
                      estimator=rng.choice(['matheron', 'cressie']), use_nugget=rng.choice([False, True]), bin_func=rng.choice(['even', 'uniform']))
            if rng.random() < 0.4:
                kw['obs_sigma'] = rng.choice([0.25, 1.0])          # a source that carries its own observation uncertainty
            case = {'unit_square': unit, 'kw': {k: v_ for k, v_ in kw.items()}, 'n': len(c)}
            ctx.count('source_has_obs_sigma', 'obs_sigma' in kw)
            ctx.count('maxlag', repr(maxlag))
            ctx.count('unit_square', unit)
            try:
                if rng.random() < 0.3:
                    v = np.round(v * 10).astype(rng.choice(['int64', 'int32']))       # observations recorded as whole numbers (integer dtype)
                    case['values_dtype'] = str(v.dtype)
                ctx.count('values_dtype', str(np.asarray(v).dtype))
                src_kind = rng.choice(['coords', 'coords', 'coords', 'samples', 'minkowski'])
                ctx.count('source_space', src_kind)
                case['source_space'] = src_kind
                if src_kind == 'samples':
                    V = Variogram(c, v, samples=0.6, **kw)
                elif src_kind == 'minkowski':
                    from skgstat import MetricSpace
                    V = Variogram(MetricSpace(c, 'minkowski', dist_metric_kwargs={'p': 1.2}), v, dist_func='minkowski', **kw)
                else:
                    V = Variogram(c, v, **kw)
                if rng.random() < 0.3:
                    V.n_lags = kw['n_lags'] + rng.choice([2, 5])          # a setting changed after construction is a setting of the source
                    case['n_lags_assigned'] = int(V.n_lags)
                if 'obs_sigma' in kw and V._kwargs.get('obs_sigma') != kw['obs_sigma']:
                    ctx.problem('oracle', 'the propagation run at construction removed / changed the obs_sigma setting of the source', case, {'passed': kw['obs_sigma'], 'held': V._kwargs.get('obs_sigma')},
                                {'what': 'source-changed', 'field': 'kwargs'})
                if 'obs_sigma' not in kw and rng.random() < 0.3:
                    V.update_kwargs(obs_sigma=0.5)
                    ctx.count('source_has_obs_sigma', 'updated')
                before = source_state(V)
            except Exception as e:
                ctx.count('rejected', type(e).__name__)
                ctx.case_done(case, False)
                continue
            evalf = rng.choice([['experimental'], ['experimental', 'parameter'], ['experimental', 'parameter', 'model'], ['model']])
            num_iter = rng.choice([7, 12, 25])
            seed = rng.choice([0, 1, 42])
            eval_at = 15
            sigma = rng.choice([0.5, 2.0])
            qs = sorted(set([rng.choice([0, 5, 10, 33, 50]), rng.choice([1, 7, 20, 99, 100]), 10]))
            case.update(evalf=evalf, num_iter=num_iter, seed=seed, qs=qs, sigma=sigma)
            ok = True
            prev = None
            for q in qs:
                try:
                    with MemberRecorder() as rec:
                        res = unc.propagate(V, source='values', sigma=sigma, evalf=evalf, num_iter=num_iter, seed=seed, q=q, eval_at=eval_at)
                    res2 = unc.propagate(V, source='values', sigma=sigma, evalf=evalf, num_iter=num_iter, seed=seed, q=q, eval_at=eval_at)
                except Exception as e:
                    ctx.count('propagate_rejected', type(e).__name__ + ':' + str(e)[:40])
                    ok = False
                    break
                res = res if isinstance(res, list) else [res]
                res2 = res2 if isinstance(res2, list) else [res2]
                ctx.disagreements_checked += 1
                if sigma > 0 and np.asarray(V.values).dtype.kind in 'iu' and rec.members and all(np.all(np.asarray(m_.values, float) == np.round(np.asarray(m_.values, float))) for m_ in rec.members):
                    ctx.problem('oracle', 'integer-typed observations: every Monte-Carlo member holds whole numbers only (the noise is not N(0, sigma) around the observations)', dict(case, q=q), None,
                                {'what': 'member-noise-rounded'})
                    ok = False
                    break
                if len(rec.members) != num_iter:
                    ctx.problem('correspondence', 'number of Monte-Carlo members differs from num_iter', case, {'members': len(rec.members)})
                mem = member_results(rec.members, evalf, eval_at)
                for name, ci, ci2 in zip(evalf, res, res2):
                    ci, ci2 = np.asarray(ci, float), np.asarray(ci2, float)
                    if not np.array_equal(ci, ci2, equal_nan=True):
                        ctx.problem('oracle', 'the same seed does not return the same intervals (%s)' % name, dict(case, q=q), None, {'what': 'seed-reproducible'})
                    M = np.array(mem[name])
                    for e in range(ci.shape[0]):
                        col = [float(x) for x in M[:, e]]
                        if any(x != x for x in col):
                            continue
                        ml = model('percentile', col, q / 2.0, golden=(len(model.golden) < 25 and len(col) <= 12))
                        mm = model('percentile', col, 50.0)
                        mu = model('percentile', col, 100 - q / 2.0)
                        got = ci[e].tolist()
                        want = [float(ml), float(mm), float(mu)]
                        if not all(gen.close(a, b, 1e-9, 1e-12) for a, b in zip(got, want)):
                            ctx.problem('oracle', 'interval of %s element %d is not (q/2-th percentile, median, (100-q/2)-th percentile) of the members for q=%r' % (name, e, q), dict(case, q=q),
                                        {'returned': got, 'percentiles_of_members': want}, {'what': 'percentile-definition', 'q': 'zero' if q == 0 else 'odd' if q % 2 else 'even'})
                            ok = False
                            break
                        if not (got[0] <= got[1] + 1e-12 and got[1] <= got[2] + 1e-12):
                            ctx.problem('oracle', 'lower <= median <= upper violated', dict(case, q=q), {'interval': got}, {'what': 'ordering'})
                    if not ok:
                        break
                # widening: a smaller q never gives a narrower interval
                if ok and prev is not None:
                    for name, a, b in zip(evalf, prev[1], res):
                        a, b = np.asarray(a, float), np.asarray(b, float)      # a: smaller q
                        fin = np.isfinite(a).all(axis=1) & np.isfinite(b).all(axis=1)
                        if np.any(a[fin, 0] > b[fin, 0] + 1e-12) or np.any(a[fin, 2] < b[fin, 2] - 1e-12):
                            ctx.problem('oracle', 'lowering q from %r to %r narrows an interval (%s)' % (q, prev[0], name), case, None, {'what': 'widening'})
                prev = (q, res)
                if not ok:
                    break
            # zero observation uncertainty: lower = median = upper = the source's own result
            try:
                z = unc.propagate(V, source='values', sigma=0.0, evalf=['experimental', 'parameter', 'model'], num_iter=5, seed=seed, q=10, eval_at=eval_at)
                own = [np.asarray(V.experimental, float), np.asarray(V.parameters, float), np.asarray(V.fitted_model(np.linspace(0, np.max(V.bins), eval_at)), float)]
                for name, ci, o in zip(['experimental', 'parameter', 'model'], z, own):
                    ci = np.asarray(ci, float)
                    for col in range(3):
                        if ci.shape[0] != len(o) or not all(gen.close(a, b, 1e-7, 1e-9) for a, b in zip(ci[:, col], o)):
                            ctx.problem('oracle', 'zero observation uncertainty: the %s interval differs from the source variogram\'s own result' % name, case,
                                        {'interval_first': ci[:3].tolist(), 'source_first': o[:3].tolist()}, {'what': 'zero-noise', 'quantity': name, 'maxlag_below_1': bool(V.maxlag is not None and V.maxlag < 1)})
                            break
                    else:
                        continue
                    break
            except Exception as e:
                ctx.count('zero_noise_rejected', type(e).__name__ + ':' + str(e)[:40])
            # the same seed gives the same intervals however the members are scheduled (worker processes)
            if t < (2 if not ctx.thorough() else 6):
                try:
                    seq = unc.propagate(V, source='values', sigma=sigma, evalf=['experimental'], num_iter=12, seed=seed, q=10)
                    par = unc.propagate(V, source='values', sigma=sigma, evalf=['experimental'], num_iter=12, seed=seed, q=10, n_jobs=2)
                    seq, par = np.asarray(seq[0] if isinstance(seq, list) else seq, float), np.asarray(par[0] if isinstance(par, list) else par, float)
                    if seq.shape != par.shape or not np.allclose(seq, par, rtol=1e-12, atol=1e-12, equal_nan=True):
                        ctx.problem('oracle', 'the same seed gives other intervals with n_jobs=2 than sequentially', case, {'sequential': seq[:3].tolist(), 'n_jobs_2': par[:3].tolist()}, {'what': 'seed-reproducible-parallel'})
                    if len({tuple(r) for r in np.round(par, 12).tolist()}) < 2 and len(par) > 2:
                        pass
                    ctx.tests['parallel_runs'] = ctx.tests.get('parallel_runs', 0) + 1
                except Exception as e:
                    ctx.count('parallel_rejected', type(e).__name__ + ':' + str(e)[:40])
            # the source variogram is untouched
            diff = state_equal(before, source_state(V))
            if diff:
                ctx.problem('oracle', 'the source variogram changed during the propagation (%s)' % diff, case, None, {'what': 'source-changed', 'field': diff})
            ctx.case_done(case, ok)
        vc.run_golden(ctx, coq, model)
    finally:
        model.close()
    ctx.extra['rule'] = ('source variograms on smooth random fields (40 % with coordinates in the unit square, so that the resolved maxlag is below 1) x maxlag forms x models x estimators; propagate(source=values) with sigma in {0.5, 2}, '
                         'num_iter in {7,12,25}, seeds {0,1,42}, 3 values of q incl. 0, odd ones and 100, evaluated quantity in {experimental, parameter, model}; every member is captured and the returned intervals are '
                         'recomputed from them by the Coq percentile model; zero-noise run; source state before/after; non-trivial = all intervals examined')
    return core.finish(ctx, coq, vc.TRUSTED_STRUCT + ['numpy default_rng and joblib (the members are whatever the implementation built; captured, not re-derived)'],
                       ['same-seed equality, the zero-noise identity and "source untouched" are executed, not proved'])
