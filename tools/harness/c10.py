"""C10 - invariances of the experimental variogram (metamorphic runs on the implementation +
the C01/C02 correspondence; theorems in Properties/C10.v)."""
import numpy as np
from scipy.spatial.distance import pdist
import core, gen, vario_common as vc


def results(case, **over):
    V = vc.build(case, **over)
    return np.asarray(V.bins, float), np.asarray(V.bin_count), np.asarray(V.experimental, float), V


def same(ctx, case, what, base, new, escale=1.0, gscale=1.0, exact=True, sig=None, edges_only=False):
    e0, c0, x0 = base
    e1, c1, x1 = new
    rel = 1e-12 if exact else 1e-9
    if len(e0) != len(e1) or not all(gen.close(a * escale, b, rel, 1e-12) for a, b in zip(e0, e1)):
        ctx.problem('oracle', '%s changes the lag edges' % what, case, {'before': e0.tolist()[:10], 'after': e1.tolist()[:10], 'edge_factor': escale}, sig or {'what': what})
        return False
    if edges_only:
        return True
    if c0.tolist() != c1.tolist():
        ctx.problem('oracle', '%s changes the pair counts' % what, case, {'before': c0.tolist(), 'after': c1.tolist()}, sig or {'what': what})
        return False
    if not all(gen.close(a * gscale, b, 1e-9, 1e-12) for a, b in zip(x0, x1)):
        ctx.problem('oracle', '%s changes the semivariances (expected factor %r)' % (what, gscale), case, {'before': x0.tolist()[:10], 'after': x1.tolist()[:10]}, sig or {'what': what})
        return False
    return True


def near_edge(case, edges, coords, tol=1e-9):
    d = pdist(coords, case['dist_func'])
    for e in edges:
        if np.any(np.abs(d - e) <= tol * max(1.0, abs(e))):
            return True
    return False


def run(ctx, replay=None):
    coq = core.Coq('C10')
    coq.build()
    model = core.Model()
    rng = ctx.rng
    try:
        n = 70 if not ctx.thorough() else 700
        cases = [replay['case']] if replay and replay.get('case') else vc.corpus_cases('C10') + vc.gen_cases(ctx, n, nmax=24)
        for case in cases:
            if case.get('bins') is not None or case['bin_func'] in ('kmeans', 'ward'):
                order_free = False
            else:
                order_free = True
            # C01 structure correspondence on the base configuration ties the theorems' model to the code
            V = vc.eval_structure_case(ctx, model, case, prop='C10', checks=('model',))
            if V is None:
                continue
            try:
                base = results(case)[:3]
            except Exception as e:
                ctx.count('rejected', type(e).__name__)
                continue
            c = np.array(case['coords'], float)
            v = np.array(case['values'], float)
            npts, dim = c.shape
            if case['bin_func'] == 'ward' and case.get('bins') is None and isinstance(V.distance_matrix, np.ndarray):
                vc.ward_reference(ctx, case, V, base[0], V.maxlag)
            # degenerate rule-based binning: all distances within the maximum lag identical (numpy widens the zero range by +-0.5)
            zsig = None
            try:
                dd = np.asarray(V.distance, float)
                mlv = V.maxlag if V.maxlag is not None else dd.max()
                if case['bin_func'] in vc.AUTO + ['rice'] and len(set(dd[dd <= mlv].tolist())) < 2:
                    zsig = {'what': 'rule-based-zero-range-edge-exceeds-maxlag'}
            except Exception:
                pass
            absml = isinstance(case['maxlag'], float) and case['maxlag'] >= 1
            done = 0
            # 1 reorder points
            if order_free:
                perm = list(range(npts))
                rng.shuffle(perm)
                cs = dict(case, coords=c[perm].tolist(), values=v[perm].tolist())
                same(ctx, case, 'reordering the points', base, results(cs)[:3], exact=False)
                done += 1
            elif case.get('bins') is None and case['bin_func'] in ('kmeans', 'ward'):
                # clustering-based edges: reordering the points reorders the distance vector handed to the clustering
                perm = list(range(npts))
                rng.shuffle(perm)
                cs = dict(case, coords=c[perm].tolist(), values=v[perm].tolist())
                try:
                    rp = results(cs)
                    sigp = None
                    from skgstat import binning
                    fn = getattr(binning, case['bin_func'])
                    d0, d1 = np.sort(np.asarray(V.distance, float)), np.sort(np.asarray(rp[3].distance, float))
                    if len(d0) == len(d1) and np.allclose(d0, d1, rtol=1e-12, atol=1e-12):
                        e0 = fn(d0, case['n_lags'], V.maxlag)[0]
                        e1 = fn(d1, case['n_lags'], rp[3].maxlag)[0]
                        if np.allclose(e0, e1, rtol=1e-12, atol=1e-12):
                            # the same multiset in the same (sorted) order gives the same edges: only the order differs
                            sigp = {'what': 'clustering-depends-on-order-of-distances', 'method': case['bin_func']}
                    same(ctx, case, 'reordering the points', base, rp[:3], exact=False, sig=sigp)
                    done += 1
                except Exception as e:
                    ctx.count('perm_rejected', type(e).__name__)
            # 2 translation (dyadic: exact)
            shift = np.array([rng.randint(-64, 64) / 4.0 for _ in range(dim)])
            cs = dict(case, coords=(c + shift).tolist())
            same(ctx, case, 'translating the coordinates', base, results(cs)[:3])
            done += 1
            # a translation far away from the origin (projected coordinates); still exact for dyadic input with a few fractional bits
            if np.all(c * 128 == np.round(c * 128)) and np.abs(c).max() < 2 ** 20:
                big = np.array([2.0 ** 19, 2.0 ** 22 + 2.0 ** 19, -2.0 ** 21][:dim])
                same(ctx, case, 'translating the coordinates far from the origin', base, results(dict(case, coords=(c + big).tolist()))[:3])
                done += 1
            # 3 rotation by 90 degrees / reflection (exact), euclidean, 2-D and 3-D
            if dim >= 2:
                cr = c.copy()
                cr[:, 0], cr[:, 1] = -c[:, 1], c[:, 0]
                same(ctx, case, 'rotating the coordinates by 90 degrees', base, results(dict(case, coords=cr.tolist()))[:3])
                cf = c.copy()
                cf[:, 1] = -cf[:, 1]
                same(ctx, case, 'reflecting the coordinates', base, results(dict(case, coords=cf.tolist()))[:3])
                done += 2
                if case['dist_func'] == 'euclidean' and order_free and not absml and zsig is None:       # (a zero-width distance range becomes a 1e-15 one under rotation)
                    cg = c.copy()
                    cg[:, 0] = 0.6 * c[:, 0] - 0.8 * c[:, 1]
                    cg[:, 1] = 0.8 * c[:, 0] + 0.6 * c[:, 1]
                    r2 = results(dict(case, coords=cg.tolist()))[:3]
                    if near_edge(case, base[0], c) or near_edge(case, r2[0], cg):
                        # a distance within rounding of an edge may change its class; the edges themselves must still agree
                        ctx.count('rotation_skipped_near_edge')
                        # ... unless a distance sits on the maximum lag itself (then the set of distances the edges are computed from changes)
                        dd_ = np.asarray(V.distance, float)
                        on_maxlag = V.maxlag is not None and bool(np.any((np.abs(dd_ - V.maxlag) <= 1e-9 * max(1.0, V.maxlag)) & (dd_ != dd_.max())))
                        if case['bin_func'] in ('even', 'uniform') and not on_maxlag and not (V.maxlag is not None and abs(dd_.max() - V.maxlag) <= 1e-9 * max(1.0, V.maxlag)):
                            same(ctx, case, 'rotating the coordinates by atan(4/3)', base, r2, exact=False, edges_only=True)
                    else:
                        same(ctx, case, 'rotating the coordinates by atan(4/3)', base, r2, exact=False)
                        done += 1
            # 4 value shift (exact)
            same(ctx, case, 'adding a constant to the values', base, results(dict(case, values=(v + 8.0).tolist()))[:3])
            # 5 value scale k -> k^2
            for k in (2.0, -3.0, 0.5):
                same(ctx, case, 'multiplying the values by k (k^2 law)', base, results(dict(case, values=(v * k).tolist()))[:3], gscale=k * k)
            done += 4
            # 5b the same laws when the values are exchanged in place on an evaluated instance
            try:
                for k, how in ((2.0, 'set_values_nodiff'), (-3.0, 'setter'), (1.0, 'set_values')):
                    Vi = results(case)[3]
                    _ = Vi.experimental
                    newv = v * k + (4.0 if k == 1.0 else 0.0)
                    if how == 'set_values_nodiff':
                        Vi.set_values(newv, calc_diff=False)
                    elif how == 'setter':
                        Vi.values = newv
                    else:
                        Vi.set_values(newv)
                    same(ctx, case, 'exchanging the values in place (%s, factor %r)' % (how, k), base,
                         (np.asarray(Vi.bins, float), np.asarray(Vi.bin_count), np.asarray(Vi.experimental, float)), gscale=k * k)
                done += 3
            except Exception as e:
                ctx.count('inplace_rejected', type(e).__name__)
            # 5c explicit lag edges assigned on an evaluated instance = the variogram of the same (reordered, shifted) data built with them
            if dim >= 1 and case['dist_func'] in ('euclidean', 'cityblock', 'chebyshev') and not absml:
                try:
                    Vi = results(case)[3]
                    _ = Vi.experimental, Vi.bin_count
                    dmax_ = float(np.max(np.asarray(Vi.distance, float)))
                    new_edges = np.array([dmax_ * f_ for f_ in (0.21, 0.43, 0.66, 0.93)])
                    how = rng.choice(['bins', 'bin_func', 'set_bin_func'])
                    if how == 'bins':
                        Vi.bins = new_edges.copy()
                    elif how == 'bin_func':
                        Vi.bin_func = new_edges.copy()
                    else:
                        Vi.set_bin_func(new_edges.copy())
                    perm = list(range(npts))
                    rng.shuffle(perm)
                    ref = results(dict(case, coords=(c[perm] + shift).tolist(), values=(v[perm] + 8.0).tolist(), bins=new_edges.tolist(), maxlag=None, coords_dtype=None))[:3]
                    same(ctx, case, 'assigning explicit lag edges in place (%s) vs the reordered, translated, value-shifted data built with these edges' % how,
                         (np.asarray(Vi.bins, float), np.asarray(Vi.bin_count), np.asarray(Vi.experimental, float)), ref, exact=False)
                    done += 1
                except Exception as e:
                    ctx.count('edges_inplace_rejected', type(e).__name__)
            # 5d a variogram that reached its metric through set_dist_function equals one constructed with it (on reordered, translated data)
            if not absml and case.get('bins') is None and order_free:
                try:
                    start = rng.choice([m_ for m_ in ('euclidean', 'cityblock', 'chebyshev') if m_ != case['dist_func']])
                    Vm = results(dict(case, dist_func=start))[3]
                    _ = Vm.experimental
                    Vm.set_dist_function(case['dist_func'])
                    perm = list(range(npts))
                    rng.shuffle(perm)
                    ref = results(dict(case, coords=(c[perm] + shift).tolist(), values=v[perm].tolist(), coords_dtype=None))[:3]
                    same(ctx, case, 'reaching the metric through set_dist_function (from %s) vs constructing the reordered, translated data with it' % start,
                         (np.asarray(Vm.bins, float), np.asarray(Vm.bin_count), np.asarray(Vm.experimental, float)), ref, exact=False, sig=zsig)
                    done += 1
                except Exception as e:
                    ctx.count('metric_inplace_rejected', type(e).__name__)
            # 6 coordinate scale s (relative or unset maxlag)
            if not absml and case.get('bins') is None:
                for s in (2.0, 0.25):
                    same(ctx, case, 'multiplying the coordinates by s', base, results(dict(case, coords=(c * s).tolist()))[:3], escale=s, sig=zsig)
                done += 2
            ctx.count('transformations_per_case', done)
            ctx.tests['metamorphic_runs'] = ctx.tests.get('metamorphic_runs', 0) + done
        # ---- lag edges of tie-rich point sets (lattices) under a generic rotation: the edges may move by rounding only
        for t in range(8 if not ctx.thorough() else 60):
            kind, cl = gen.point_set(rng, n=rng.randint(12, 25), dim=2, kind=rng.choice(['lattice', 'lattice', 'line']))
            _, vl = gen.values(rng, len(cl))
            cg = np.column_stack((0.6 * cl[:, 0] - 0.8 * cl[:, 1], 0.8 * cl[:, 0] + 0.6 * cl[:, 1]))
            for bf in ('uniform', 'even'):
                lc = {'coords': cl.tolist(), 'values': vl.tolist(), 'estimator': 'matheron', 'bin_func': bf, 'bins': None, 'maxlag': None, 'n_lags': rng.randint(3, 9),
                      'dist_func': 'euclidean', 'tags': {'points': kind, 'stream': 'tie-rich-rotation'}}
                try:
                    b0 = results(lc)[:3]
                    b1 = results(dict(lc, coords=cg.tolist()))[:3]
                    same(ctx, lc, 'rotating a tie-rich point set by atan(4/3)', b0, b1, exact=False, edges_only=True)
                    ctx.tests['tie_rich_rotations'] = ctx.tests.get('tie_rich_rotations', 0) + 1
                except Exception as e:
                    ctx.count('tie_rich_rejected', type(e).__name__)
        # ---- Cressie-Hawkins: the R-valued specification the C10 theorems speak about, evaluated inside Coq (interval
        # arithmetic) on generated classes, against estimators.cressie
        from fractions import Fraction
        from skgstat import estimators
        goals, meta = [], []
        for t in range(16 if not ctx.thorough() else 80):
            nn = rng.choice([1, 2, 3, 4, 5, 7, 9, 12])
            kind = rng.choice(['ints', 'dyadic', 'ties'])
            xs = [Fraction(rng.randint(0, 40)) if kind == 'ints' else Fraction(rng.randint(0, 4096), 64) if kind == 'dyadic' else Fraction(rng.choice([0, 1, 4, 4, 9])) for _ in range(nn)]
            obs = float(estimators.cressie(np.array([float(x) for x in xs])))
            of = Fraction(obs)
            tol = Fraction(1, 10 ** 9) * max(1, abs(of))
            lst = '; '.join('%d / %d' % (x.numerator, x.denominator) for x in xs)
            goals.append(('Rabs (cressieR [%s] - (%d / %d)) <= %d / %d' % (lst, of.numerator, of.denominator, tol.numerator, tol.denominator),
                          'unfold cressieR, cressie_den, sumR; cbn [length map fold_right]; unfold INR; interval with (i_prec 80).'))
            meta.append({'estimator': 'cressie', 'class': [float(x) for x in xs], 'impl': obs})
        nproved, failing, log = coq.interval_goals(goals, imports='Spec.EstimatorsR')
        ctx.interval_goals = len(goals)
        if failing:
            k = failing[0]
            ctx.problem('correspondence', 'interval goal: Spec.EstimatorsR.cressieR evaluated inside Coq differs from estimators.cressie (or the goal could not be discharged)',
                        meta[k], {'log': log[-300:]}, {'what': 'interval-goal'})
            coq.broken.append({'kind': 'proof', 'file': 'Cases/C10_interval.v', 'lemma': 'goal %d (cressie)' % k, 'error': log[-300:]})
        ctx.extra['interval_goal_samples'] = meta[:3]
        # Matheron / Dowd / Genton: estimators.py against the exact-rational models the C10 theorems speak about
        vc.check_estimators(ctx, model, 30 if not ctx.thorough() else 200)
        vc.run_golden(ctx, coq, model)
    finally:
        model.close()
    ctx.extra['rule'] = ('each generated configuration is re-run under: point permutation, dyadic translation, 90-degree rotation, reflection, '
                         'rotation by atan(4/3) (skipped when a distance is within 1e-9 of an edge), value shift, value scale k in {2,-3,1/2}, '
                         'coordinate scale s in {2,1/4}; non-trivial = at least two non-empty lag classes')
    return core.finish(ctx, coq, vc.TRUSTED_STRUCT, vc.ASSUME_STRUCT)
