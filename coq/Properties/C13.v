(* C13 - directional variograms obey the symmetries of direction. *)
From Coq Require Import Reals Lra.
From SG Require Import Gen.Direction Proofs.DirectionP Proofs.SectorsP.
Local Open Scope R_scope.

(* a tolerance of 180 degrees (no bandwidth limit) selects every pair of distinct points *)
Theorem C13_tolerance_180 dx dy n az d :
  0 < n -> n * n = dx * dx + dy * dy -> -180 <= az <= 180 -> compass az 180 (pair_angle dx dy n) d.
Proof. exact (compass_tolerance_180 dx dy n az d). Qed.
Print Assumptions C13_tolerance_180.

(* azimuths that differ by 180 degrees give the same selection *)
Theorem C13_azimuth_180 dx dy n az tol d :
  0 < n -> n * n = dx * dx + dy * dy -> -180 <= az <= 0 ->
  (compass az tol (pair_angle dx dy n) d <-> compass (az + 180) tol (pair_angle dx dy n) d).
Proof. exact (compass_azimuth_180 dx dy n az tol d). Qed.
Print Assumptions C13_azimuth_180.

(* rotating all coordinates by an angle (c, s) and the azimuth direction by the same angle keeps the
   quantities the selection depends on (u.a, u x a, |u|); with C12_compass / C12_triangle the mask is unchanged *)
Theorem C13_rotation dx dy ax ay c s : c * c + s * s = 1 ->
  (dx * c - dy * s) * (ax * c - ay * s) + (dx * s + dy * c) * (ax * s + ay * c) = dx * ax + dy * ay /\
  (dx * s + dy * c) * (ax * c - ay * s) - (dx * c - dy * s) * (ax * s + ay * c) = dy * ax - dx * ay /\
  (dx * c - dy * s) * (dx * c - dy * s) + (dx * s + dy * c) * (dx * s + dy * c) = dx * dx + dy * dy.
Proof. exact (rotation_invariant dx dy ax ay c s). Qed.
Print Assumptions C13_rotation.
Theorem C13_azimuth_rotated az phi :
  dir_x (az - phi) = dir_x az * cos (phi * PI / 180) - dir_y az * sin (phi * PI / 180) /\
  dir_y (az - phi) = dir_x az * sin (phi * PI / 180) + dir_y az * cos (phi * PI / 180).
Proof. exact (dir_rotated az phi). Qed.
Print Assumptions C13_azimuth_rotated.

(* k sectors of width w = 180/k degrees tiling the half circle (azimuths -90 + w/2 + t*w, t < k): every pair of distinct
   points is selected by at least one of them ... *)
Theorem C13_sectors_cover (k : nat) (w dx dy n d : R) :
  (0 < k)%nat -> w * INR k = 180 -> 0 < n -> n * n = dx * dx + dy * dy ->
  exists t : nat, (t < k)%nat /\ compass (-90 + w / 2 + INR t * w) w (pair_angle dx dy n) d.
Proof. exact (sectors_cover_pairs k w dx dy n d). Qed.
Print Assumptions C13_sectors_cover.

(* ... and a pair selected by two different sectors lies exactly on the boundary of both (its folded angle to either
   azimuth line equals half the sector width): off the boundaries each pair is selected exactly once, so the
   per-sector pair counts add up to the isotropic count. *)
Theorem C13_sectors_overlap_on_boundary (k : nat) (w theta d : R) (t t' : nat) :
  (0 < k)%nat -> w * INR k = 180 -> - PI <= theta <= PI -> (t < k)%nat -> (t' < k)%nat -> t <> t' ->
  compass (-90 + w / 2 + INR t * w) w theta d -> compass (-90 + w / 2 + INR t' * w) w theta d ->
  fold (Rabs (theta + (-90 + w / 2 + INR t * w) * PI / 180)) = w / 2 * PI / 180 /\
  fold (Rabs (theta + (-90 + w / 2 + INR t' * w) * PI / 180)) = w / 2 * PI / 180.
Proof. exact (sectors_overlap_on_boundary k w theta d t t'). Qed.
Print Assumptions C13_sectors_overlap_on_boundary.

Example C13_nonvacuous : (3 / 5) * (3 / 5) + (4 / 5) * (4 / 5) = 1 /\ ((0 < 4)%nat /\ 45 * INR 4 = 180 /\ - PI <= 0 <= PI).
Proof. split; [lra|exact sectors_example]. Qed.
