(* C04 - all views of a fitted variogram describe one and the same function.
   (For sums of models the slices are covered by C03b: SumModels.) *)
From SG Require Import Base.Prelude Base.NumpyPrims Model.Fit Proofs.FitP.
Local Open Scope Q_scope.

(* automatic fits (trf, lm): coefficient vector, parameters and the argument list rebuilt from describe()
   (what kriging uses) all denote (range, sill, [shape]) and the same nugget - 0 when it is disabled *)
Theorem C04_views_agree_auto k use_nugget params n :
  length params = k ->
  let cof := cof_auto k use_nugget params n in
  let truth := (params, if use_nugget then n else 0) in
  pairQeq (interp k cof) truth /\ pairQeq (interp k (parameters k use_nugget cof)) truth /\ pairQeq (interp k (krige_args k use_nugget cof)) truth.
Proof. exact (views_agree_auto k use_nugget params n). Qed.
Print Assumptions C04_views_agree_auto.

(* manual fits: the vector always carries a nugget slot; the views agree provided the nugget is 0 whenever
   use_nugget is off - which the fit guarantees by switching use_nugget on when a nugget is passed (F2) *)
Theorem C04_views_agree_manual k use_nugget params n :
  length params = k -> (use_nugget = false -> n == 0) ->
  let cof := cof_manual params n in
  let truth := (params, n) in
  pairQeq (interp k cof) truth /\ pairQeq (interp k (parameters k use_nugget cof)) truth /\ pairQeq (interp k (krige_args k use_nugget cof)) truth.
Proof. exact (views_agree_manual k use_nugget params n). Qed.
Print Assumptions C04_views_agree_manual.

(* without that guarantee the views DISAGREE: the defect F2 as a theorem about the faithful model *)
Theorem C04_manual_nugget_mismatch_refuted :
  exists k params n, length params = k /\ ~ pairQeq (interp k (parameters k false (cof_manual params n))) (interp k (cof_manual params n)).
Proof. exists 2%nat, [4; 1], (1 # 2). split; [reflexivity|]. unfold pairQeq. vm_compute. intros [_ H]. discriminate H. Qed.
Print Assumptions C04_manual_nugget_mismatch_refuted.

Theorem C04_no_nugget k cof : describe_nugget false cof = 0 /\ snd (interp k (parameters k false cof)) = nth k (firstn k cof ++ [0]) 0.
Proof. exact (no_nugget_reported k cof). Qed.
Print Assumptions C04_no_nugget.

Example C04_nonvacuous : parameters 3 true [5; 2; 3 # 2; 1 # 4] = [5; 2; 3 # 2; 1 # 4] /\ krige_args 2 false [5; 2] = [5; 2].
Proof. split; reflexivity. Qed.
