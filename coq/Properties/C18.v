(* C18 - results are reproducible, instances isolated, caller arrays never modified.
   PARTIAL: proved here is the isolation part (ownership model of Model/Alias.v).  Bit-level
   reproducibility of seeded k-means / pair sampling / cross-validation subsets across constructions and
   processes, and the semantics of deepcopy / pickle, are behaviour of the libraries: executed by the harness
   (incl. a second process), not proved. *)
From SG Require Import Base.Prelude Model.Alias Proofs.AliasP.

(* construction copies the caller's coordinate and value arrays: the invariant "no array the instance
   computes from is reachable by the caller" holds afterwards *)
Theorem C18_construct_isolates s c v : (forall l, In l (reach s) -> (l < next s)%nat) -> (c < next s)%nat -> (v < next s)%nat ->
  Inv (fst (astep s (Construct c v))).
Proof. exact (construct_inv s c v). Qed.
Print Assumptions C18_construct_isolates.

(* any history of caller-side writes (into the arrays passed in, into returned lag edges, into clones), reads of
   lag edges, clones / pickle round trips and result reads: every observation equals the contents at
   construction time *)
Theorem C18_non_interference ops s : Inv s -> forallb (fun o => negb (rebinds o)) ops = true ->
  Forall (fun ob => match ob with Some x => x = contents s | None => True end) (arun s ops).
Proof. exact (non_interference ops s). Qed.
Print Assumptions C18_non_interference.

(* the aliasing variant (np.asarray instead of a copy: defect F13, fixed) is a real counterexample *)
Theorem C18_alias_refuted : exists s ops, arun s ops <> arun s (map (fun o => match o with ExtWrite _ _ => Observe | _ => o end) ops) /\
  nth 1 (arun s ops) None <> nth 3 (arun s ops) None.
Proof. exact alias_refuted. Qed.
Print Assumptions C18_alias_refuted.

Example C18_nonvacuous :
  arun (init [(0, 7); (1, 9)]%nat 2%nat) [Construct 0 1; Observe; ExtWrite 1 5; GetBins; ExtWrite 4 0; Clone; ExtWrite 5 1; Observe]
  = [None; Some [7; 9]; None; None; None; None; None; Some [7; 9]]%nat.
Proof. reflexivity. Qed.
