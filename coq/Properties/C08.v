(* C08 - ordinary kriging is an exact and unbiased interpolator: algebra valid for ANY solution
   (weights w, multiplier mu) of the system assembled in C07. *)
From SG Require Import Base.Prelude Base.NumpyPrims Model.Pairs Model.Kriging Proofs.PairsP Proofs.KrigingP.
Local Open Scope Q_scope.

Theorem C08_weights_sum_to_one n (w : list Q) m : length w = n ->
  dot (repeat 1 n ++ [0]) (w ++ [m]) == 1 -> sumQ w == 1.
Proof. intros Hl H. rewrite <- (last_row_sum n w m Hl). exact H. Qed.
Print Assumptions C08_weights_sum_to_one.

(* adding c to all observations adds c to every estimate; the variance does not involve the observations *)
Theorem C08_shift w z c : length w = length z -> sumQ w == 1 -> dot w (map (fun v => v + c) z) == dot w z + c.
Proof. exact (shift_invariance w z c). Qed.
Print Assumptions C08_shift.

(* multiplying the observations by k multiplies the estimate by k *)
Theorem C08_scale_estimate w z k : dot w (map (fun v => k * v) z) == k * dot w z.
Proof. exact (scale_estimate w z k). Qed.
Print Assumptions C08_scale_estimate.

(* multiplying every semivariance (sill and nugget) by c: the same weights with mu*c satisfy the scaled
   rows and the variance is multiplied by c; the property's k^2 is c = k^2 *)
Theorem C08_scale_row g w m c : length g = length w ->
  dot (map (fun v => c * v) g ++ [1]) (w ++ [c * m]) == c * (dot g w + m).
Proof. exact (scale_row g w m c). Qed.
Print Assumptions C08_scale_row.
Theorem C08_scale_variance g0 w m c : dot (map (fun v => c * v) g0) w + c * m == c * (dot g0 w + m).
Proof. exact (scale_variance g0 w m c). Qed.
Print Assumptions C08_scale_variance.

Theorem C08_constant_field w n c : length w = n -> sumQ w == 1 -> dot w (repeat c n) == c.
Proof. exact (constant_field w n c). Qed.
Print Assumptions C08_constant_field.

(* exactness: when the target is observation j (right-hand side = column j, zero diagonal) the unit
   vector with mu = 0 satisfies all rows, its estimate is z_j; a system with a unique solution therefore
   returns z_j (and the variance gamma_jj = 0) *)
Theorem C08_exact_solution (G : list (list Q)) (z : list Q) n j :
  (j < n)%nat -> length z = n -> (forall row, In row G -> length row = n) ->
  (forall row, In row G -> dot (row ++ [1]) (unit n j ++ [0]) == nth j row 0) /\
  dot (repeat 1 n ++ [0]) (unit n j ++ [0]) == 1 /\
  dot (unit n j) z == nth j z 0.
Proof. exact (exact_solution G z n j). Qed.
Print Assumptions C08_exact_solution.
Theorem C08_exactness_under_uniqueness (w : list Q) z n j :
  (j < n)%nat -> length z = n -> Forall2 Qeq w (unit n j) -> dot w z == nth j z 0.
Proof. exact (exactness_under_uniqueness w z n j). Qed.
Print Assumptions C08_exactness_under_uniqueness.

(* NOT PROVED (stays a test): non-negativity of the variance needs conditional negative definiteness of
   the variogram model, classical mathematics outside this development. *)
Example C08_nonvacuous : sumQ [1 # 4; 3 # 4] == 1 /\ dot [1 # 4; 3 # 4] (map (fun v => v + 10) [2; 6]) == dot [1 # 4; 3 # 4] [2; 6] + 10.
Proof. split; reflexivity. Qed.
