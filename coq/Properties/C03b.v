(* C03 (sum models) - a '+'-joined sum of models equals the sum of its components with a single shared nugget. *)
From SG Require Import Base.Prelude Base.NumpyPrims Model.SumModels Proofs.SumModelsP.
Local Open Scope Q_scope.

Theorem C03_sum_with_nugget comps h params n :
  comps <> [] -> Forall (fun c => additive (snd c)) comps -> length params = total comps ->
  sum_model comps h (params ++ [n]) == sum_plain comps h params + n.
Proof. exact (sum_with_nugget comps h params n). Qed.
Print Assumptions C03_sum_with_nugget.

Theorem C03_sum_without_nugget comps h params :
  length params = total comps -> sum_model comps h params == sum_plain comps h params.
Proof. exact (sum_without_nugget comps h params). Qed.
Print Assumptions C03_sum_without_nugget.

Theorem C03_slices_consecutive sizes start i a b c d :
  nth_error (slice_bounds_from start sizes) i = Some (a, b) ->
  nth_error (slice_bounds_from start sizes) (S i) = Some (c, d) -> c = b.
Proof. exact (slice_bounds_consecutive sizes start i a b c d). Qed.
Print Assumptions C03_slices_consecutive.

Example C03b_nonvacuous : slice_bounds [2; 3; 2]%nat = [(0, 2); (2, 5); (5, 8)]%nat /\
  split_args [2; 3; 2]%nat [1; 2; 3; 4; 5; 6; 7] = [[1; 2]; [3; 4; 5]; [6; 7]].
Proof. split; reflexivity. Qed.
