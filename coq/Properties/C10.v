(* C10 - the experimental variogram has the invariances of its definition. *)
From SG Require Import Base.Prelude Base.NumpyPrims Model.Pairs Model.Groups Model.Estimators Model.Binning
  Proofs.PairsP Proofs.GroupsP Proofs.NumpyP Proofs.BinningP Proofs.InvarianceP Proofs.EstimatorsP Spec.EstimatorsR.
From Coq Require Import Reals.
Local Open Scope Q_scope.

(* reordering the observation points permutes the condensed vectors ... *)
Theorem C10_pdist_perm {A B} (f : A -> A -> B) (l l' : list A) :
  (forall x y, f x y = f y x) -> Permutation l l' -> Permutation (pdist f l) (pdist f l').
Proof. exact (pdist_perm f l l'). Qed.
Print Assumptions C10_pdist_perm.

(* ... hence every lag class keeps its multiset of differences (same pair counts) ... *)
Theorem C10_classes_perm {P X} (d : P -> P -> Q) (x : P -> P -> X) (pts pts' : list P) edges i :
  (forall a b, d a b = d b a) -> (forall a b, x a b = x b a) -> Permutation pts pts' ->
  Permutation (map snd (filter (fun dx => is_group i (group_of edges (fst dx))) (pdist (fun a b => (d a b, x a b)) pts)))
              (map snd (filter (fun dx => is_group i (group_of edges (fst dx))) (pdist (fun a b => (d a b, x a b)) pts'))).
Proof. exact (classes_perm d x pts pts' edges i). Qed.
Print Assumptions C10_classes_perm.

(* ... and the semivariance of a class depends on that multiset only, for all four estimators.
   Matheron, Dowd, Genton: exact-rational models of estimators.py (run against it by the harness);
   Cressie-Hawkins: the documented formula over R (it needs square roots). *)
Theorem C10_matheron_perm l l' : Permutation l l' -> optQeq (matheron l) (matheron l').
Proof. exact (matheron_perm l l'). Qed.
Print Assumptions C10_matheron_perm.
Theorem C10_dowd_perm l l' : Permutation l l' -> optQeq (dowd l) (dowd l').
Proof. exact (dowd_perm l l'). Qed.
Print Assumptions C10_dowd_perm.
Theorem C10_genton_perm l l' : Permutation l l' -> optQeq (genton l) (genton l').
Proof. exact (genton_perm l l'). Qed.
Print Assumptions C10_genton_perm.
Theorem C10_cressie_perm (l l' : list R) : Permutation l l' -> cressieR l = cressieR l'.
Proof. exact (cressie_perm l l'). Qed.
Print Assumptions C10_cressie_perm.

(* translation, rotation, reflection keep every squared euclidean distance *)
Theorem C10_rigid_motion c s a b p q :
  c * c + s * s == 1 -> sqdist2 (rigid c s a b p) (rigid c s a b q) == sqdist2 p q.
Proof. exact (rigid_sqdist c s a b p q). Qed.
Print Assumptions C10_rigid_motion.
Theorem C10_reflection p q : sqdist2 (reflect p) (reflect q) == sqdist2 p q.
Proof. exact (reflect_sqdist p q). Qed.
Print Assumptions C10_reflection.

(* adding a constant to all values leaves every pairwise difference unchanged *)
Theorem C10_value_shift a b c : Qabs ((a + c) - (b + c)) == Qabs (a - b).
Proof. exact (shift_diff a b c). Qed.
Print Assumptions C10_value_shift.

(* multiplying the values by k multiplies every difference by |k| and the semivariance by k^2, for all four
   estimators (the class handed to the estimator is the list of |differences|, so it is multiplied by |k|). *)
Theorem C10_value_scale_diff a b k : Qabs (k * a - k * b) == Qabs k * Qabs (a - b).
Proof. exact (scale_diff a b k). Qed.
Print Assumptions C10_value_scale_diff.
Theorem C10_matheron_scale k l :
  optQeq (matheron (map (fun v => k * v) l)) (option_map (fun g => k * k * g) (matheron l)).
Proof. exact (matheron_scale k l). Qed.
Print Assumptions C10_matheron_scale.
Theorem C10_dowd_scale k l :
  optQeq (dowd (map (Qmult (Qabs k)) l)) (option_map (fun g => k * k * g) (dowd l)).
Proof. exact (dowd_scale k l). Qed.
Print Assumptions C10_dowd_scale.
Theorem C10_genton_scale k l :
  optQeq (genton (map (Qmult (Qabs k)) l)) (option_map (fun g => k * k * g) (genton l)).
Proof. exact (genton_scale k l). Qed.
Print Assumptions C10_genton_scale.
Theorem C10_cressie_scale (k : R) (l : list R) : cressieR (map (Rmult (Rabs k)) l) = (k * k * cressieR l)%R.
Proof. exact (cressie_scale k l). Qed.
Print Assumptions C10_cressie_scale.

(* multiplying the coordinates by s > 0: 'even' edges scale by s, the classification is unchanged *)
Theorem C10_coord_scale_groups s edges d : 0 < s -> group_of (map (fun e => s * e) edges) (s * d) = group_of edges d.
Proof. exact (group_of_scale s edges d). Qed.
Print Assumptions C10_coord_scale_groups.
Theorem C10_coord_scale_even s n M i : (i < n)%nat -> nth i (even n (s * M)) 0 == s * nth i (even n M) 0.
Proof. exact (even_scale s n M i). Qed.
Print Assumptions C10_coord_scale_even.

Example C10_nonvacuous :
  (3 # 5) * (3 # 5) + (4 # 5) * (4 # 5) == 1 /\ Permutation [1; 2; 3]%nat [3; 1; 2]%nat /\
  group_of (map (fun e => 2 * e) [1; 2]) (2 * 1) = Some 1%nat.
Proof. split; [reflexivity|]. split; [|reflexivity]. apply Permutation_sym. apply (Permutation_cons_append [1; 2]%nat 3%nat). Qed.
