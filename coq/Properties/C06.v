(* C06 - changing parameters in place is equivalent to building a fresh variogram.
   Model/VarioSM.v mirrors every setter's resets and every getter's lazy fill; each cached quantity is
   stamped with the settings it was computed from. *)
From SG Require Import Base.Prelude Model.VarioSM Proofs.VarioSMP.

(* invariant: every cache is empty or was computed from the current settings *)
Theorem C06_reads_are_fresh s c o : valid s c -> is_read o = true ->
  valid s (fst (read_op s c o)) /\ snd (read_op s c o) = fresh s o.
Proof. exact (read_valid s c o). Qed.
Print Assumptions C06_reads_are_fresh.

Theorem C06_setters_keep_validity s c o : valid s c -> is_read o = false -> safe_op s c o = true -> admissible_op s o = true ->
  valid (fst (set_op s c o)) (snd (set_op s c o)).
Proof. exact (set_valid s c o). Qed.
Print Assumptions C06_setters_keep_validity.

(* all finite sequences of assignments interleaved with reads, from any constructor configuration:
   every read returns what a fresh instance with the settings at that moment returns.
   ok_ops excludes exactly: n_lags/maxlag assigned while user edges are active, a non-rule binning while
   n_lags is still 'derived' (no defined fresh equivalent), and - known finding F5 - assigning a different
   use_nugget while fitted coefficients are cached. *)
Theorem C06_equivalent_to_fresh s ops :
  ok_ops (s, empty_caches) ops -> run (s, empty_caches) ops = fresh_run (s, empty_caches) ops.
Proof. exact (fresh_start_equivalent s ops). Qed.
Print Assumptions C06_equivalent_to_fresh.

(* the excluded case is a real counterexample in the faithful model: use_nugget assigned after a fit *)
Definition s0 : settings := mkS 0 0 (NLGiven 10) MLNone BEven 0 0 false 0 0 0 0 0 0.
Theorem C06_use_nugget_refuted :
  exists s ops, run (s, empty_caches) ops <> fresh_run (s, empty_caches) ops.
Proof. exists s0, [ReadParameters; SetUseNugget true; ReadParameters]. vm_compute. discriminate. Qed.
Print Assumptions C06_use_nugget_refuted.

(* non-vacuity: a long mixed history satisfies ok_ops *)
Example C06_nonvacuous :
  ok_ops (s0, empty_caches) [ReadCount; SetMaxlag (MLRel 1); ReadBins; SetBins 7; ReadParameters; SetDist 2; ReadExperimental;
                             SetBinFunc (BAuto 1); ReadNLags; SetValues 3; SetUseNugget true; ReadParameters; SetAzimuth 4; ReadCount].
Proof. vm_compute. repeat split; try reflexivity; try discriminate; intros; try discriminate. Qed.
