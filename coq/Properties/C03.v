(* C03 - theoretical models are valid, bounded, monotone variogram functions.
   Statements are about the definitions GENERATED from models.py (Gen/Models.v); each is transported
   through the bridge lemma to the closed form on which the analysis is done. *)
From Coq Require Import Reals Lra.
From Coquelicot Require Import Coquelicot.
From SG Require Import Gen.Models Spec.ModelsR Proofs.ModelsBridge Proofs.ModelsP.
Local Open Scope R_scope.

(* ---- spherical ---- *)
Theorem C03_spherical_at_zero r c0 b : 0 < r -> spherical 0 r c0 b = b.
Proof. intros. rewrite spherical_bridge by assumption. apply spherical_at_zero; assumption. Qed.
Theorem C03_spherical_mono h h' r c0 b : 0 < r -> 0 <= c0 -> 0 <= h -> h <= h' -> spherical h r c0 b <= spherical h' r c0 b.
Proof. intros. rewrite !spherical_bridge by assumption. apply spherical_mono; assumption. Qed.
Theorem C03_spherical_bounds h r c0 b : 0 < r -> 0 <= c0 -> 0 <= h -> b <= spherical h r c0 b <= b + c0.
Proof. intros. rewrite spherical_bridge by assumption. apply spherical_bounds; assumption. Qed.
Theorem C03_spherical_sill_at_range h r c0 b : 0 < r -> r <= h -> spherical h r c0 b = b + c0.
Proof. intros. rewrite spherical_bridge by assumption. apply spherical_range; assumption. Qed.
Theorem C03_spherical_limit r c0 b : 0 < r -> is_lim (fun h => spherical h r c0 b) p_infty (b + c0).
Proof. intros Hr. apply (is_lim_ext (fun h => spherical_cf h r c0 b)); [intro h; symmetry; apply spherical_bridge; exact Hr|apply spherical_limit; exact Hr]. Qed.
Print Assumptions C03_spherical_mono.
Print Assumptions C03_spherical_limit.

(* ---- exponential ---- *)
Theorem C03_exponential_at_zero r c0 b : 0 < r -> exponential 0 r c0 b = b.
Proof. intros. rewrite exponential_bridge by assumption. apply exponential_at_zero; assumption. Qed.
Theorem C03_exponential_mono h h' r c0 b : 0 < r -> 0 <= c0 -> 0 <= h -> h <= h' -> exponential h r c0 b <= exponential h' r c0 b.
Proof. intros. rewrite !exponential_bridge by assumption. apply exponential_mono; assumption. Qed.
Theorem C03_exponential_bounds h r c0 b : 0 < r -> 0 <= c0 -> 0 <= h -> b <= exponential h r c0 b <= b + c0.
Proof. intros. rewrite exponential_bridge by assumption. apply exponential_bounds; assumption. Qed.
Theorem C03_exponential_95_at_range r c0 b : 0 < r -> 0 <= c0 -> b + 95 / 100 * c0 <= exponential r r c0 b.
Proof. intros. rewrite exponential_bridge by assumption. apply exponential_range; assumption. Qed.
Theorem C03_exponential_limit r c0 b : 0 < r -> is_lim (fun h => exponential h r c0 b) p_infty (b + c0).
Proof. intros Hr. apply (is_lim_ext (fun h => exponential_cf h r c0 b)); [intro h; symmetry; apply exponential_bridge; exact Hr|apply exponential_limit; exact Hr]. Qed.
Print Assumptions C03_exponential_95_at_range.

(* ---- gaussian ---- *)
Theorem C03_gaussian_at_zero r c0 b : 0 < r -> gaussian 0 r c0 b = b.
Proof. intros. rewrite gaussian_bridge by assumption. apply gaussian_at_zero; assumption. Qed.
Theorem C03_gaussian_mono h h' r c0 b : 0 < r -> 0 <= c0 -> 0 <= h -> h <= h' -> gaussian h r c0 b <= gaussian h' r c0 b.
Proof. intros. rewrite !gaussian_bridge by assumption. apply gaussian_mono; assumption. Qed.
Theorem C03_gaussian_bounds h r c0 b : 0 < r -> 0 <= c0 -> b <= gaussian h r c0 b <= b + c0.
Proof. intros. rewrite gaussian_bridge by assumption. apply gaussian_bounds; assumption. Qed.
Theorem C03_gaussian_95_at_range r c0 b : 0 < r -> 0 <= c0 -> b + 95 / 100 * c0 <= gaussian r r c0 b.
Proof. intros. rewrite gaussian_bridge by assumption. apply gaussian_range; assumption. Qed.
Theorem C03_gaussian_limit r c0 b : 0 < r -> is_lim (fun h => gaussian h r c0 b) p_infty (b + c0).
Proof. intros Hr. apply (is_lim_ext (fun h => gaussian_cf h r c0 b)); [intro h; symmetry; apply gaussian_bridge; exact Hr|apply gaussian_limit; exact Hr]. Qed.
Print Assumptions C03_gaussian_limit.

(* ---- cubic ---- *)
Theorem C03_cubic_at_zero r c0 b : 0 < r -> cubic 0 r c0 b = b.
Proof. intros. rewrite cubic_bridge by assumption. apply cubic_at_zero; assumption. Qed.
Theorem C03_cubic_mono h h' r c0 b : 0 < r -> 0 <= c0 -> 0 <= h -> h <= h' -> cubic h r c0 b <= cubic h' r c0 b.
Proof. intros. rewrite !cubic_bridge by assumption. apply cubic_mono; assumption. Qed.
Theorem C03_cubic_bounds h r c0 b : 0 < r -> 0 <= c0 -> 0 <= h -> b <= cubic h r c0 b <= b + c0.
Proof. intros. rewrite cubic_bridge by assumption. apply cubic_bounds; assumption. Qed.
Theorem C03_cubic_sill_at_range h r c0 b : 0 < r -> r <= h -> cubic h r c0 b = b + c0.
Proof. intros. rewrite cubic_bridge by assumption. apply cubic_range; assumption. Qed.
Theorem C03_cubic_limit r c0 b : 0 < r -> is_lim (fun h => cubic h r c0 b) p_infty (b + c0).
Proof. intros Hr. apply (is_lim_ext (fun h => cubic_cf h r c0 b)); [intro h; symmetry; apply cubic_bridge; exact Hr|apply cubic_limit; exact Hr]. Qed.
Print Assumptions C03_cubic_mono.

(* ---- stable (0 < s; the admissible interval is (0, 2]) ---- *)
Theorem C03_stable_at_zero r c0 s b : stable 0 r c0 s b = b.
Proof. unfold stable. destruct (Req_EM_T 0 0); [reflexivity|lra]. Qed.
Theorem C03_stable_mono h h' r c0 s b : 0 < r -> 0 <= c0 -> 0 < s -> 0 <= h -> h <= h' -> stable h r c0 s b <= stable h' r c0 s b.
Proof. intros. rewrite !stable_bridge by (try assumption; lra). apply stable_mono; assumption. Qed.
Theorem C03_stable_bounds h r c0 s b : 0 < r -> 0 <= c0 -> 0 < s -> 0 <= h -> b <= stable h r c0 s b <= b + c0.
Proof. intros. rewrite stable_bridge by assumption. apply stable_bounds; assumption. Qed.
Theorem C03_stable_95_at_range r c0 s b : 0 < r -> 0 <= c0 -> 0 < s -> b + 95 / 100 * c0 <= stable r r c0 s b.
Proof. intros. rewrite stable_bridge by (try assumption; lra). apply stable_range; assumption. Qed.
Theorem C03_stable_limit r c0 s b : 0 < r -> 0 < s -> is_lim (fun h => stable h r c0 s b) p_infty (b + c0).
Proof.
  intros Hr Hs. apply (is_lim_ext_loc (fun h => stable_cf h r c0 s b)).
  - exists 0. intros h Hh. symmetry. apply stable_bridge; lra.
  - apply stable_limit; assumption.
Qed.
Print Assumptions C03_stable_limit.

(* ---- matern: PARTIAL.  K_s and Gamma are parameters of the generated definition; what can be said
   without them is proved; boundedness, monotonicity and the limit are proved under the classical
   facts about rho_s(x) = 2/Gamma(s) (x/2)^s K_s(x) (in [0,1], non-increasing, vanishing); the 90 % level
   at the effective range is evaluated numerically by the harness only. ---- *)
Theorem C03_matern_at_zero Gamma Kv r c0 s b : matern Gamma Kv 0 r c0 s b = b.
Proof. unfold matern. destruct (Req_EM_T 0 0); [reflexivity|lra]. Qed.
Theorem C03_matern_bounds_partial Gamma Kv s h r c0 b :
  (forall x, 0 < x -> 0 <= matern_rho Gamma Kv s x <= 1) -> 0 < s -> 0 < r -> 0 <= c0 -> 0 <= h ->
  b <= matern Gamma Kv h r c0 s b <= b + c0.
Proof. intros H1 H2 Hr Hc Hh. rewrite matern_bridge by exact Hr. apply matern_bounds_partial; assumption. Qed.
Theorem C03_matern_mono_partial Gamma Kv s h h' r c0 b :
  (forall x, 0 < x -> 0 <= matern_rho Gamma Kv s x <= 1) ->
  (forall x y, 0 < x -> x <= y -> matern_rho Gamma Kv s y <= matern_rho Gamma Kv s x) -> 0 < s ->
  0 < r -> 0 <= c0 -> 0 <= h -> h <= h' -> matern Gamma Kv h r c0 s b <= matern Gamma Kv h' r c0 s b.
Proof. intros H1 H2 H3 Hr Hc Hh Hhh. rewrite !matern_bridge by exact Hr. apply matern_mono_partial; assumption. Qed.
Theorem C03_matern_limit_partial Gamma Kv s r c0 b :
  0 < s -> is_lim (matern_rho Gamma Kv s) p_infty 0 -> 0 < r -> is_lim (fun h => matern Gamma Kv h r c0 s b) p_infty (b + c0).
Proof.
  intros Hs Hl Hr. apply (is_lim_ext (fun h => matern_cf Gamma Kv h r c0 s b)); [intro h; symmetry; apply matern_bridge; exact Hr|].
  apply matern_limit_partial; assumption.
Qed.
Print Assumptions C03_matern_mono_partial.

(* ---- nugget additivity (what makes the sum of models well defined) ---- *)
Theorem C03_nugget_additive h r c0 s b :
  spherical h r c0 b = spherical h r c0 0 + b /\ exponential h r c0 b = exponential h r c0 0 + b /\
  gaussian h r c0 b = gaussian h r c0 0 + b /\ cubic h r c0 b = cubic h r c0 0 + b /\ stable h r c0 s b = stable h r c0 s 0 + b.
Proof.
  unfold spherical, exponential, gaussian, cubic, stable. cbv zeta. repeat split;
    repeat match goal with |- context [Rle_dec ?a ?b] => destruct (Rle_dec a b) | |- context [Rlt_dec ?a ?b] => destruct (Rlt_dec a b)
                          | |- context [Req_EM_T ?a ?b] => destruct (Req_EM_T a b) end; ring.
Qed.
Print Assumptions C03_nugget_additive.

(* non-vacuity: admissible parameters exist and the statements say something there *)
Example C03_nonvacuous : 0 < 10 /\ 0 <= 2 /\ spherical 10 10 2 1 = 1 + 2 /\ cubic 20 10 2 1 = 1 + 2.
Proof.
  repeat split; try lra.
  - apply C03_spherical_sill_at_range; lra.
  - apply C03_cubic_sill_at_range; lra.
Qed.
