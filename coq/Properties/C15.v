(* C15 - the space-time model is fitted to each cell at its own space and time lag.
   (1) the generated model definitions (Gen/STModels.v, from stmodels.py) are the documented combinations
       of the marginal models; (2) the sample table handed to the least-squares fit pairs every semivariance
       with the lags of its own cell, NaN cells dropped.
   PARTIAL: that curve_fit returns a local least-squares optimum is behaviour of SciPy's optimiser; it is
   tested by re-optimisation in the harness, not proved. *)
From Coq Require Import Reals Lra.
From SG Require Import Gen.STModels.
From SG Require Import Base.Prelude Base.NumpyPrims Model.Pairs Model.SpaceTime Proofs.SpaceTimeP.

Section Formulas.
Local Open Scope R_scope.
Variables Vx Vt : R -> R.

Theorem C15_sum_model h t : st_sum h t Vx Vt = Vx h + Vt t.
Proof. reflexivity. Qed.

Theorem C15_product_model h t Cx Ct : st_product h t Vx Vt Cx Ct = Cx * Vt t + Ct * Vx h - Vx h * Vt t.
Proof. unfold st_product. cbv zeta. ring. Qed.

Theorem C15_product_sum_model h t k1 k2 k3 Cx Ct :
  st_product_sum h t Vx Vt k1 k2 k3 Cx Ct = (k1 * Ct + k2) * Vx h + (k1 * Cx + k3) * Vt t - k1 * Vx h * Vt t.
Proof. unfold st_product_sum. cbv zeta. ring. Qed.
End Formulas.
Print Assumptions C15_product_sum_model.

Local Open Scope Q_scope.
(* sample k = i*T + j of the lag grid carries (xbins[i], tbins[j]): the lags of cell (i, j) of the space-major table *)
Theorem C15_pairing xb tb i j :
  (i < length xb)%nat -> (j < length tb)%nat ->
  nth (i * length tb + j) (lag_grid xb tb) (0, 0) = (nth i xb 0, nth j tb 0).
Proof. exact (lag_grid_cell xb tb i j). Qed.
Print Assumptions C15_pairing.

(* NaN cells contribute no sample; every other cell exactly its own (space lag, time lag, semivariance) *)
Theorem C15_nan_ignored {Y} (xb tb : list Q) (z : list (option Y)) x t y :
  In (x, t, y) (fit_samples xb tb z) <-> In ((x, t), Some y) (combine (lag_grid xb tb) z).
Proof. exact (fit_samples_spec xb tb z x t y). Qed.
Print Assumptions C15_nan_ignored.

Example C15_nonvacuous :
  fit_samples [1; 2] [10; 20; 30] [Some 5; None; Some 7; Some 8; Some 9; None] =
  [(1, 10, 5); (1, 30, 7); (2, 10, 8); (2, 20, 9)].
Proof. reflexivity. Qed.
