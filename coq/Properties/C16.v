(* C16 - cross-variograms use products of paired differences; the table is symmetric. *)
From SG Require Import Base.Prelude Model.Pairs Model.Groups Proofs.PairsP Proofs.GroupsP Proofs.CrossP.
Local Open Scope Q_scope.

Theorem C16_cross_same_pair (v1 v2 : list Q) :
  length v1 = length v2 ->
  cross_diffs (pdist (fun a b => Qabs (a - b)) v1) (pdist (fun a b => Qabs (a - b)) v2) =
  map (fun p => Qabs (nth (fst p) v1 0 - nth (snd p) v1 0) * Qabs (nth (fst p) v2 0 - nth (snd p) v2 0))
      (pairs (length v1)).
Proof. exact (cross_same_pair v1 v2). Qed.
Print Assumptions C16_cross_same_pair.

Theorem C16_table_symmetric (x1 x2 : list Q) : Forall2 Qeq (cross_diffs x1 x2) (cross_diffs x2 x1).
Proof. exact (cross_comm x1 x2). Qed.
Print Assumptions C16_table_symmetric.

(* binned exactly like an ordinary variogram: the C01 theorems apply verbatim to the product vector,
   since lag_class / bin_count / experimental are polymorphic in the pairwise quantity *)
Theorem C16_class {X} (n : nat) (dfun : nat * nat -> Q) (xfun : nat * nat -> X) edges i :
  chain 0 edges ->
  lag_class edges (map dfun (pairs n)) (map xfun (pairs n)) i =
  map xfun (filter (fun p => in_class_i edges i (dfun p)) (pairs n)).
Proof. exact (lag_class_pairs n dfun xfun edges i). Qed.
Print Assumptions C16_class.

Example C16_nonvacuous : cross_diffs [1; 2; 3] [2; 0; 1 # 2] = [1 * 2; 2 * 0; 3 * (1 # 2)].
Proof. reflexivity. Qed.
