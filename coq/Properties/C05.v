(* C05 - automatic fits stay in bounds, are locally optimal and ignore empty lag classes.
   PARTIAL: proved here is how the least-squares problem handed to curve_fit is assembled; that curve_fit
   returns a local minimiser inside the box is behaviour of SciPy (tested by re-optimisation in the harness). *)
From SG Require Import Base.Prelude Base.NumpyPrims Model.Fit Model.Jackknife Proofs.FitP.
Local Open Scope Q_scope.

(* lags, semivariances and weights handed to the optimiser stay aligned: entry i of all three comes from the
   same non-empty lag class *)
Theorem C05_alignment (bins sigma : list Q) (exp : list (option Q)) :
  length bins = length exp -> length sigma = length exp ->
  combine (combine (fit_x bins exp) (fit_y exp)) (fit_sigma sigma exp) =
  somes (map (fun t => match snd (fst t) with Some y => Some (fst (fst t), y, snd t) | None => None end)
             (combine (combine bins exp) sigma)).
Proof. exact (fit_alignment bins sigma exp). Qed.
Print Assumptions C05_alignment.

Theorem C05_lengths (bins sigma : list Q) (exp : list (option Q)) :
  length bins = length exp -> length sigma = length exp ->
  length (fit_x bins exp) = length (fit_y exp) /\ length (fit_sigma sigma exp) = length (fit_y exp).
Proof. exact (fit_lengths bins sigma exp). Qed.
Print Assumptions C05_lengths.

(* an empty lag class neither breaks nor influences the problem: deleting it beforehand changes nothing *)
Theorem C05_empty_class_irrelevant (bins sigma : list Q) (exp : list (option Q)) i :
  length bins = length exp -> length sigma = length exp -> nth_error exp i = Some None ->
  fit_x (delete i bins) (delete i exp) = fit_x bins exp /\ fit_y (delete i exp) = fit_y exp /\
  fit_sigma (delete i sigma) (delete i exp) = fit_sigma sigma exp.
Proof. exact (nan_class_irrelevant bins sigma exp i). Qed.
Print Assumptions C05_empty_class_irrelevant.

(* the documented box: range <= largest edge, sill <= largest semivariance, shape <= 2 / 20, nugget <= 0.99 max *)
Theorem C05_bounds sb mx my nug :
  nth 0 (bounds_one sb mx my nug) 0 = mx /\ nth 1 (bounds_one sb mx my nug) 0 = my /\
  (forall s, sb = Some s -> nth 2 (bounds_one sb mx my nug) 0 = s) /\
  (nug = true -> last (bounds_one sb mx my nug) 0 = (99 # 100) * my) /\
  length (bounds_one sb mx my nug) = (2 + (if sb then 1 else 0) + (if nug then 1 else 0))%nat.
Proof. exact (bounds_documented sb mx my nug). Qed.
Print Assumptions C05_bounds.

Theorem C05_wrapped (m : Q -> list Q -> Q) x p : wrapped m true x p = m x p /\ wrapped m false x p = m x (p ++ [0]).
Proof. exact (wrapped_spec m x p). Qed.
Print Assumptions C05_wrapped.

Example C05_nonvacuous :
  fit_x [1; 2; 3; 4] [Some 5; None; Some 7; None] = [1; 3] /\ fit_sigma [10; 20; 30; 40] [Some 5; None; Some 7; None] = [10; 30] /\
  bounds_sum [None; Some 2] 9 8 true = [9; 8; 9; 8; 2; (99 # 100) * 8].
Proof. repeat split; reflexivity. Qed.
