(* C12 - directional variograms use exactly the point pairs inside the search area.
   The masks are the definitions GENERATED from DirectionalVariogram.py (Gen/Direction.v). *)
From Coq Require Import Reals Lra.
From SG Require Import Gen.Direction Proofs.DirectionP.
Local Open Scope R_scope.

(* the two np.where steps fold an angle of [0, 2 pi] to the angle between undirected lines *)
Theorem C12_fold x : 0 <= x -> x <= 2 * PI -> 0 <= fold x /\ fold x <= PI / 2 /\ cos (fold x) = Rabs (cos x).
Proof. exact (fold_char x). Qed.
Print Assumptions C12_fold.

(* compass: a pair u = (dx, dy) of length n > 0 is selected iff the unsigned angle between its line and
   the azimuth direction (cos az, -sin az) [0 degrees = East, positive clockwise] is at most tolerance/2 *)
Theorem C12_compass dx dy n az tol d :
  0 < n -> n * n = dx * dx + dy * dy -> -180 <= az <= 180 ->
  (compass az tol (pair_angle dx dy n) d <-> acos (Rabs (dx * dir_x az + dy * dir_y az) / n) <= tol / 2 * PI / 180).
Proof. intros Hn Hd Ha. exact (compass_iff_geometry dx dy n Hn Hd az Ha tol d). Qed.
Print Assumptions C12_compass.

(* triangle: additionally the perpendicular offset |u x a| from the azimuth line is at most bandwidth/2 *)
Theorem C12_triangle dx dy n az tol bw :
  0 < n -> n * n = dx * dx + dy * dy -> -180 <= az <= 180 ->
  (triangle az tol bw (pair_angle dx dy n) n <->
   acos (Rabs (dx * dir_x az + dy * dir_y az) / n) <= tol / 2 * PI / 180 /\ Rabs (dy * dir_x az - dx * dir_y az) <= bw / 2).
Proof. intros Hn Hd Ha. exact (triangle_iff_geometry dx dy n Hn Hd az Ha tol bw). Qed.
Print Assumptions C12_triangle.

(* the decision does not depend on the order of the two points *)
Theorem C12_order_independent dx dy n az tol d d' :
  0 < n -> n * n = dx * dx + dy * dy -> -180 <= az <= 180 ->
  (compass az tol (pair_angle dx dy n) d <-> compass az tol (pair_angle (- dx) (- dy) n) d').
Proof. exact (compass_order_independent dx dy n az tol d d'). Qed.
Print Assumptions C12_order_independent.
Theorem C12_order_independent_triangle dx dy n az tol bw :
  0 < n -> n * n = dx * dx + dy * dy -> -180 <= az <= 180 ->
  (triangle az tol bw (pair_angle dx dy n) n <-> triangle az tol bw (pair_angle (- dx) (- dy) n) n).
Proof. exact (triangle_order_independent dx dy n az tol bw). Qed.
Print Assumptions C12_order_independent_triangle.

Example C12_nonvacuous : 0 < 5 /\ 5 * 5 = 3 * 3 + 4 * 4 /\ -180 <= 45 <= 180.
Proof. repeat split; lra. Qed.
