(* C11 - how distances are supplied never changes the variogram.
   The dense path is C01's model (pairs n); the truncated path is Model/Sparse.v.  Both feed the same
   polymorphic lag_class / bin_count / experimental, so equality of the variograms reduces to: the
   sparse path lists exactly the stored pairs below the diagonal (zero distances included), aligned
   with their differences.  That every pair with d <= maxlag is stored with its true distance is the
   contract of cKDTree.sparse_distance_matrix (checked per case by the harness, C20). *)
From SG Require Import Base.Prelude Model.Sparse Model.Groups Proofs.GroupsP Proofs.SparseP Model.Binning Proofs.BinningP.
Local Open Scope Q_scope.

Theorem C11_tri_lower_spec m i j d :
  In (i, j, d) (tri_lower m) <-> exists row, nth_error m i = Some row /\ In (j, d) row /\ (j < i)%nat.
Proof. exact (tri_lower_spec m i j d). Qed.
Print Assumptions C11_tri_lower_spec.

Theorem C11_sparse_aligned m v k :
  nth_error (sparse_distance m) k = option_map snd (nth_error (tri_lower m) k) /\
  nth_error (sparse_diffs m v) k =
    option_map (fun e => Qabs (nth (fst (fst e)) v 0 - nth (snd (fst e)) v 0)) (nth_error (tri_lower m) k).
Proof. exact (sparse_aligned m v k). Qed.
Print Assumptions C11_sparse_aligned.

(* classes and counts depend only on the multiset of (distance, difference) pairs: any two
   enumerations of the same pairs give permuted classes *)
Theorem C11_order_irrelevant {X} edges (DX DX' : list (Q * X)) i :
  Permutation DX DX' ->
  Permutation (map snd (filter (fun dx => is_group i (group_of edges (fst dx))) DX))
              (map snd (filter (fun dx => is_group i (group_of edges (fst dx))) DX')).
Proof.
  intro Hp. apply Permutation_map. induction Hp as [|x l l' Hp IH|x y l|l l' l'' H1 IH1 H2 IH2]; cbn [filter].
  - apply perm_nil.
  - destruct (is_group i (group_of edges (fst x))); [apply perm_skip|]; exact IH.
  - destruct (is_group i (group_of edges (fst x))), (is_group i (group_of edges (fst y)));
      try apply perm_swap; apply Permutation_refl.
  - eapply perm_trans; eassumption.
Qed.
Print Assumptions C11_order_irrelevant.

(* pairs beyond the last edge never count, so dropping the pairs with d > maxlag >= last edge is harmless *)
Theorem C11_beyond_irrelevant edges d :
  chain 0 edges -> 0 <= d -> last edges 0 <= d -> group_of edges d = None.
Proof. intros Hc H0 Hd. exact (proj1 (proj2 (group_of_partition edges d Hc H0) Hd)). Qed.
Print Assumptions C11_beyond_irrelevant.

(* lowering the maximum lag on a truncated instance loses nothing: the pairs within the smaller maximum lag are still stored *)
Theorem C11_lowered_maxlag M1 M2 D : M2 <= M1 -> within M2 (within M1 D) = within M2 D.
Proof. exact (within_nested M1 M2 D). Qed.
Print Assumptions C11_lowered_maxlag.

Example C11_nonvacuous :
  tri_lower [[(0%nat, 0); (1%nat, 0)]; [(0%nat, 0); (1%nat, 0); (2%nat, 1)]; [(1%nat, 1); (2%nat, 0)]]
  = [(1%nat, 0%nat, 0); (2%nat, 1%nat, 1)].
Proof. reflexivity. Qed.
