(* C19 - uncertainty propagation: ordered, reproducible bounds; source left untouched.
   PARTIAL: proved here are the order statistics (numpy's linear-interpolated percentile / median).  The
   Monte-Carlo members themselves (seeded NumPy generator, joblib), same-seed equality and "the source is
   unchanged" are executed by the harness, not proved. *)
From SG Require Import Base.Prelude Base.NumpyPrims Proofs.NumpyP Proofs.UncertaintyP.
Local Open Scope Q_scope.

Theorem C19_ordered l q lo me up : 0 <= q -> q <= 100 ->
  lower l q = Some lo -> median l = Some me -> upper l q = Some up -> lo <= me /\ me <= up.
Proof. exact (interval_ordered l q lo me up). Qed.
Print Assumptions C19_ordered.

Theorem C19_widening l q q' lo lo' up up' : 0 <= q' -> q' <= q -> q <= 100 ->
  lower l q = Some lo -> lower l q' = Some lo' -> upper l q = Some up -> upper l q' = Some up' -> lo' <= lo /\ up <= up'.
Proof. exact (interval_widens l q q' lo lo' up up'). Qed.
Print Assumptions C19_widening.

Theorem C19_zero_noise c n p v : 0 <= p -> p <= 1 -> quantile (repeat c (S n)) p = Some v -> v == c.
Proof. exact (constant_members c n p v). Qed.
Print Assumptions C19_zero_noise.

Example C19_nonvacuous :
  match lower [3; 1; 4; 1; 5] 20, median [3; 1; 4; 1; 5], upper [3; 1; 4; 1; 5] 20 with
  | Some a, Some b, Some c => Qle_bool a b && Qle_bool b c && Qeq_bool b 3 | _, _, _ => false end = true.
Proof. vm_compute. reflexivity. Qed.
