(* C09 - kriging results do not depend on how the computation is carried out. *)
From SG Require Import Base.Prelude Base.NumpyPrims Model.Pairs Model.Kriging Proofs.PairsP Proofs.KrigingP Proofs.StableP.
Local Open Scope Q_scope.

(* any batch composition: the result of a concatenated batch is the concatenation of the results *)
Theorem C09_batches rs1 rs2 :
  zs (transform (rs1 ++ rs2)) = zs (transform rs1) ++ zs (transform rs2) /\
  sigmas (transform (rs1 ++ rs2)) = sigmas (transform rs1) ++ sigmas (transform rs2).
Proof. exact (transform_app rs1 rs2). Qed.
Print Assumptions C09_batches.

(* any ordering of the targets: results are permuted the same way, estimate and variance stay together *)
Theorem C09_target_order rs rs' : Permutation rs rs' ->
  Permutation (combine (zs (transform rs)) (sigmas (transform rs))) (combine (zs (transform rs')) (sigmas (transform rs'))).
Proof. exact (transform_perm rs rs'). Qed.
Print Assumptions C09_target_order.

(* repeated calls: transform starts from tinit, so the k-th call only depends on its own targets *)
Theorem C09_repeated_calls rs : zs (transform rs) = map res_z rs /\ sigmas (transform rs) = map res_s rs.
Proof. exact (transform_aligned rs). Qed.
Print Assumptions C09_repeated_calls.

(* order of the neighbours: estimate and variance depend only on the multiset of (weight, value) pairs *)
Theorem C09_neighbour_order w z w' z' : length w = length z -> length w' = length z' ->
  Permutation (combine w z) (combine w' z') -> dot w z == dot w' z'.
Proof. exact (estimate_perm w z w' z'). Qed.
Print Assumptions C09_neighbour_order.

(* sparse and dense storage select the same neighbours: both feed `closest` with the candidates within range *)
Theorem C09_same_selection cands N :
  let sel := if Nat.ltb N (length cands) then firstn N (sort_by cands) else cands in
  closest cands N = map fst sel /\ (forall e, In e sel -> In e cands) /\ length sel = Nat.min N (length cands) /\
  (forall e e', In e sel -> In e' cands -> ~ In e' sel -> NoDup cands -> snd e <= snd e').
Proof. exact (closest_spec cands N). Qed.
Print Assumptions C09_same_selection.

(* the solver option: any two solutions of a system with a unique solution coincide - stated as the
   hypothesis of C08_exactness_under_uniqueness; that numpy/scipy/inv return a solution is checked per
   call by the residual in the harness (trusted leaf). *)
Example C09_nonvacuous : zs (transform ([inl (1, 2)] ++ [inr Singular; inl (5, 6)])) = [Some 1; None; Some 5].
Proof. reflexivity. Qed.

(* the sort is stable (np.argsort(kind="stable")): candidates at one and the same distance keep their index order, and the
   selected ones among them are the first ones - which equidistant observations enter a neighbourhood is determined *)
Theorem C09_sort_stable k l : filter (has_key k) (sort_by l) = filter (has_key k) l.
Proof. exact (sort_by_stable k l). Qed.
Print Assumptions C09_sort_stable.
Theorem C09_ties_by_position cands N k :
  exists m, filter (has_key k) (firstn N (sort_by cands)) = firstn m (filter (has_key k) cands).
Proof. exact (closest_ties_by_position cands N k). Qed.
Print Assumptions C09_ties_by_position.
