(* C17 - jackknife cross-validation = true leave-one-out kriging. *)
From SG Require Import Base.Prelude Base.NumpyPrims Model.Pairs Model.Kriging Model.Jackknife Proofs.PairsP Proofs.KrigingP Proofs.JackknifeP.
Local Open Scope Q_scope.

(* np.delete(l, i): every other element keeps its relative position, element i is gone *)
Theorem C17_delete_spec {A} (l : list A) i k d : (i < length l)%nat ->
  nth k (delete i l) d = nth (if (k <? i)%nat then k else S k) l d.
Proof. exact (delete_nth l i k d). Qed.
Print Assumptions C17_delete_spec.
Theorem C17_delete_length {A} (l : list A) i : (i < length l)%nat -> length (delete i l) = (length l - 1)%nat.
Proof. exact (delete_length l i). Qed.
Print Assumptions C17_delete_length.
(* the held-out observation is not among the observations used for its own prediction *)
Theorem C17_held_out_excluded {A} (l : list A) i d : (i < length l)%nat -> NoDup l -> ~ In (nth i l d) (delete i l).
Proof. exact (held_out_excluded l i d). Qed.
Print Assumptions C17_held_out_excluded.

(* scores over the estimable points only: NaN residuals are ignored by all three metrics *)
Theorem C17_scores_over_estimable (res : list (option Q)) :
  mse res = mse (map Some (estimable res)) /\ mae res = mae (map Some (estimable res)).
Proof. exact (scores_over_estimable res). Qed.
Print Assumptions C17_scores_over_estimable.

Example C17_nonvacuous : delete 1 [10; 20; 30] = [10; 30] /\ estimable [Some 1; None; Some (-3)] = [1; -3] /\
  match mae [Some 1; None; Some (-3)] with Some m => Qeq_bool m 2 | None => false end = true.
Proof. vm_compute. repeat split; reflexivity. Qed.
