(* C14 - space-time experimental variogram = estimator over exactly each cell's pairs. *)
From SG Require Import Base.Prelude Base.NumpyPrims Model.Pairs Model.SpaceTime Proofs.PairsP Proofs.GroupsP Proofs.SpaceTimeP.
Local Open Scope Q_scope.

(* row r / column c of the difference table = |v[a,s] - v[b,t]| for the r-th location pair a<b and the
   c-th time-step pair s<t (condensed order on both axes) *)
Theorem C14_diff_table (v : list (list Q)) (T : nat) r c a b s t :
  nth_error (pairs (length v)) r = Some (a, b) -> nth_error (pairs T) c = Some (s, t) ->
  nth c (nth r (st_diff v T) []) 0 = Qabs (nth s (nth a v []) 0 - nth t (nth b v []) 0).
Proof. exact (st_diff_spec v T r c a b s t). Qed.
Print Assumptions C14_diff_table.

(* lag classes are the open-closed intervals (edge[i-1], edge[i]] for every non-decreasing edge list *)
Theorem C14_group_spec edges d i : chain 0 edges -> (group_oc edges d = Some i <-> in_class_oc_i edges i d = true).
Proof. exact (group_oc_spec edges d i). Qed.
Print Assumptions C14_group_spec.

(* the table is ordered space-major: entry i*T + j is the estimator over cell (i, j) *)
Theorem C14_order {Y} (est : list Q -> Y) diff xg tg X T i j (d : Y) :
  (i < X)%nat -> (j < T)%nat -> nth (i * T + j) (st_experimental est diff xg tg X T) d = est (cell diff xg tg i j).
Proof. exact (st_order est diff xg tg X T i j d). Qed.
Print Assumptions C14_order.

(* marginals are the column / row of that table *)
Theorem C14_marginal_space {Y} (est : list Q -> Y) diff xg tg X T i j (d : Y) :
  (i < X)%nat -> (j < T)%nat -> nth i (marginal_space est diff xg tg X j) d = nth (i * T + j) (st_experimental est diff xg tg X T) d.
Proof. exact (marginal_space_is_column est diff xg tg X T i j d). Qed.
Print Assumptions C14_marginal_space.
Theorem C14_marginal_time {Y} (est : list Q -> Y) diff xg tg X T i j (d : Y) :
  (i < X)%nat -> (j < T)%nat -> nth j (marginal_time est diff xg tg T i) d = nth (i * T + j) (st_experimental est diff xg tg X T) d.
Proof. exact (marginal_time_is_row est diff xg tg X T i j d). Qed.
Print Assumptions C14_marginal_time.

Example C14_nonvacuous :
  group_oc [1; 2] 1 = Some 0%nat /\ group_oc [1; 2] 0 = None /\ group_oc [1; 2] 2 = Some 1%nat /\
  st_diff [[1; 5]; [2; 9]] 2 = [[8]].
Proof. vm_compute. repeat split; reflexivity. Qed.
