(* C20 - metric spaces hold true distances; neighbour search = nearest N within range. *)
From SG Require Import Base.Prelude Model.Pairs Model.Kriging Proofs.PairsP Proofs.KrigingP Proofs.StableP Proofs.MetricP.
Local Open Scope Q_scope.

Theorem C20_matrix_entry {A} (f : A -> A -> Q) (l : list A) (d : A) i j :
  (i < length l)%nat -> (j < length l)%nat -> (forall x y, f x y = f y x) ->
  sq_entry 0 (pdist f l) (length l) i j = if Nat.eqb i j then 0 else f (nth i l d) (nth j l d).
Proof. exact (squareform_entry f l d i j). Qed.
Print Assumptions C20_matrix_entry.
Theorem C20_symmetric {A} (zero : A) c n i j : sq_entry zero c n i j = sq_entry zero c n j i.
Proof. exact (squareform_symmetric zero c n i j). Qed.
Print Assumptions C20_symmetric.
Theorem C20_zero_diagonal {A} (zero : A) c n i : sq_entry zero c n i i = zero.
Proof. exact (squareform_diagonal zero c n i). Qed.
Print Assumptions C20_zero_diagonal.

(* neighbour search: candidates = the columns within the maximum distance ... *)
Theorem C20_candidates row m j d : In (j, d) (dense_candidates row (Some m)) <-> nth_error row j = Some d /\ d <= m.
Proof. exact (dense_candidates_spec row m j d). Qed.
Print Assumptions C20_candidates.
(* ... the N nearest of them (all if fewer), identically for any storage that supplies the same candidates *)
Theorem C20_nearest cands N :
  let sel := if Nat.ltb N (length cands) then firstn N (sort_by cands) else cands in
  closest cands N = map fst sel /\ (forall e, In e sel -> In e cands) /\ length sel = Nat.min N (length cands) /\
  (forall e e', In e sel -> In e' cands -> ~ In e' sel -> NoDup cands -> snd e <= snd e').
Proof. exact (closest_spec cands N). Qed.
Print Assumptions C20_nearest.

Example C20_nonvacuous : squareform 0 (pdist (fun a b => Qabs (a - b)) [1; 4; 6]) 3 = [[0; 3; 5]; [3; 0; 2]; [5; 2; 0]].
Proof. vm_compute. reflexivity. Qed.

(* the sort is stable (np.argsort(kind="stable")): candidates at one and the same distance keep their index order, and the
   selected ones among them are the first ones - which equidistant observations enter a neighbourhood is determined *)
Theorem C20_sort_stable k l : filter (has_key k) (sort_by l) = filter (has_key k) l.
Proof. exact (sort_by_stable k l). Qed.
Print Assumptions C20_sort_stable.
Theorem C20_ties_by_position cands N k :
  exists m, filter (has_key k) (firstn N (sort_by cands)) = firstn m (filter (has_key k) cands).
Proof. exact (closest_ties_by_position cands N k). Qed.
Print Assumptions C20_ties_by_position.
