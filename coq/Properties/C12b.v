(* C12 (grouping part) - lag classes of a directional variogram hold exactly the selected pairs of that class. *)
From SG Require Import Base.Prelude Model.Pairs Model.Groups Proofs.PairsP Proofs.GroupsP Proofs.MaskP.
Local Open Scope Q_scope.

Theorem C12_masked_group edges D mask k d m :
  nth_error D k = Some d -> nth_error mask k = Some m ->
  nth_error (masked_groups edges D mask) k = Some (if m then group_of edges d else @None nat).
Proof. exact (masked_group_nth edges D mask k d m). Qed.
Print Assumptions C12_masked_group.

Theorem C12_masked_class edges d (m : bool) i :
  chain 0 edges -> (is_group i (if m then group_of edges d else @None nat) = true <-> m = true /\ in_class_i edges i d = true).
Proof. exact (masked_class_iff edges d m i). Qed.
Print Assumptions C12_masked_class.

Example C12b_nonvacuous : masked_groups [1; 2] [1 # 2; 3 # 2; 3 # 2] [true; false; true] = [Some 0%nat; None; Some 1%nat].
Proof. reflexivity. Qed.
