(* C01 - Experimental variogram = estimator over exactly the pairs of each lag class.
   Only statements closed by `exact`; proofs live in Proofs/. *)
From SG Require Import Base.Prelude Model.Pairs Model.Groups Proofs.PairsP Proofs.GroupsP.
Local Open Scope Q_scope.

(* the condensed vector enumerates exactly the pairs i<j<n, once each, in scipy's order *)
Theorem C01_pairs_spec n i j : In (i, j) (pairs n) <-> (i < j /\ j < n)%nat.
Proof. exact (pairs_spec n i j). Qed.
Print Assumptions C01_pairs_spec.

Theorem C01_pairs_NoDup n : NoDup (pairs n).
Proof. exact (pairs_NoDup n). Qed.
Print Assumptions C01_pairs_NoDup.

Theorem C01_pairs_length n : (2 * length (pairs n) = n * (n - 1))%nat.
Proof. exact (pairs_length n). Qed.
Print Assumptions C01_pairs_length.

Theorem C01_condensed_index n i j : (i < j)%nat -> (j < n)%nat ->
  nth_error (pairs n) (cidx n i j) = Some (i, j).
Proof.
  intros H1 H2. pose proof (nth_error_pdist_seq n 0 i j ltac:(lia) H1 ltac:(lia)) as H.
  rewrite !Nat.sub_0_r in H. exact H.
Qed.
Print Assumptions C01_condensed_index.

(* any pdist-style vector is the image of that enumeration: the k-th distance and the k-th
   value difference belong to the same point pair *)
Theorem C01_pdist_as_pairs {A B} (f : A -> A -> B) (d : A) (l : list A) :
  pdist f l = map (fun p => f (nth (fst p) l d) (nth (snd p) l d)) (pairs (length l)).
Proof. exact (pdist_as_pairs f d l). Qed.
Print Assumptions C01_pdist_as_pairs.

Theorem C01_aligned {X} (n : nat) (dfun : nat * nat -> Q) (xfun : nat * nat -> X) k :
  nth_error (map dfun (pairs n)) k = option_map dfun (nth_error (pairs n) k) /\
  nth_error (map xfun (pairs n)) k = option_map xfun (nth_error (pairs n) k).
Proof. exact (aligned n dfun xfun k). Qed.
Print Assumptions C01_aligned.

(* the overwrite loop of _calc_groups = half-open intervals [edge[i-1], edge[i]), edge[-1] = 0 *)
Theorem C01_group_of_spec edges d i :
  chain 0 edges -> (group_of edges d = Some i <-> in_class_i edges i d = true).
Proof. exact (group_of_spec edges d i). Qed.
Print Assumptions C01_group_of_spec.

(* every pair closer than the last edge is in exactly one class, none at or beyond it *)
Theorem C01_partition edges d :
  chain 0 edges -> 0 <= d ->
  (d < last edges 0 -> exists i, group_of edges d = Some i /\ in_class_i edges i d = true) /\
  (last edges 0 <= d -> group_of edges d = None /\ forall i, in_class_i edges i d = false).
Proof. exact (group_of_partition edges d). Qed.
Print Assumptions C01_partition.

Theorem C01_unique edges d i j :
  chain 0 edges -> in_class_i edges i d = true -> in_class_i edges j d = true -> i = j.
Proof. exact (in_class_i_unique edges d i j). Qed.
Print Assumptions C01_unique.

(* class i = |dv| over exactly the pairs whose distance lies in the i-th interval *)
Theorem C01_class {X} (n : nat) (dfun : nat * nat -> Q) (xfun : nat * nat -> X) edges i :
  chain 0 edges ->
  lag_class edges (map dfun (pairs n)) (map xfun (pairs n)) i =
  map xfun (filter (fun p => in_class_i edges i (dfun p)) (pairs n)).
Proof. exact (lag_class_pairs n dfun xfun edges i). Qed.
Print Assumptions C01_class.

(* np.where(groups == i) indexing = the filtered class (what the harness compares) *)
Theorem C01_class_positions {X} edges (D : list Q) (xs : list X) i :
  length D = length xs -> lag_class edges D xs i = take_at xs (class_positions edges D i).
Proof. exact (lag_class_take_at edges D xs i). Qed.
Print Assumptions C01_class_positions.

Theorem C01_bin_count {X} edges (D : list Q) (xs : list X) i :
  length D = length xs -> (i < length edges)%nat ->
  nth i (bin_count edges D) 0%nat = length (lag_class edges D xs i).
Proof. exact (bin_count_spec edges D xs i). Qed.
Print Assumptions C01_bin_count.

Theorem C01_bin_count_total edges (D : list Q) :
  chain 0 edges -> Forall (fun d => 0 <= d) D ->
  list_sum (bin_count edges D) = length (filter (fun d => Qltb d (last edges 0)) D).
Proof. exact (bin_count_total edges D). Qed.
Print Assumptions C01_bin_count_total.

Theorem C01_experimental {X Y} (est : list X -> option Y) edges D xs i :
  (i < length edges)%nat -> nth i (experimental est edges D xs) None = est (lag_class edges D xs i).
Proof. exact (experimental_nth est edges D xs i). Qed.
Print Assumptions C01_experimental.

(* non-vacuity: a concrete edge list meets the hypotheses, with a pair exactly on an edge *)
Example C01_nonvacuous :
  chain 0 [1; 2; 2; 3] /\ group_of [1; 2; 2; 3] 2 = Some 3%nat /\ group_of [1; 2; 2; 3] 3 = None /\
  bin_count [1; 2; 2; 3] [0; 1; 2; 5 # 2; 3] = [1; 1; 0; 2]%nat.
Proof. cbn. repeat split; try lra; reflexivity. Qed.
