(* C02 - lag edges are well-formed and honour n_lags and maxlag for every binning method. *)
From SG Require Import Base.Prelude Base.NumpyPrims Model.Binning Proofs.GroupsP Proofs.NumpyP Proofs.BinningP.
Local Open Scope Q_scope.

(* effective maximum lag: never above the largest distance; an absolute maxlag is honoured *)
Theorem C02_clip_le_max maxlag D M mx : clip_maxlag maxlag D = Some M -> maxQ D = Some mx -> M <= mx.
Proof. exact (clip_le_max maxlag D M mx). Qed.
Print Assumptions C02_clip_le_max.
Theorem C02_clip_abs m D M mx : clip_maxlag (Some m) D = Some M -> maxQ D = Some mx ->
  (m <= mx -> M = m) /\ (mx < m -> M = mx).
Proof. exact (clip_abs m D M mx). Qed.
Print Assumptions C02_clip_abs.
Theorem C02_clip_none D M : clip_maxlag None D = Some M -> maxQ D = Some M.
Proof. exact (clip_none D M). Qed.
Print Assumptions C02_clip_none.
Theorem C02_resolve_relative v D mx : v < 1 -> maxQ D = Some mx -> resolve_maxlag (MValue v) D = Some (v * mx).
Proof. exact (resolve_relative v D mx). Qed.
Print Assumptions C02_resolve_relative.
Theorem C02_resolve_absolute v D : 1 <= v -> resolve_maxlag (MValue v) D = Some v.
Proof. exact (resolve_absolute v D). Qed.
Print Assumptions C02_resolve_absolute.

(* 'even': n equal-width classes, strictly increasing, ending exactly at the effective maximum lag *)
Theorem C02_even_length n M : length (even n M) = n.
Proof. exact (even_length n M). Qed.
Print Assumptions C02_even_length.
Theorem C02_even_last n M : (0 < n)%nat -> nth (n - 1) (even n M) 0 == M.
Proof. exact (even_last n M). Qed.
Print Assumptions C02_even_last.
Theorem C02_even_increasing n M i j : 0 < M -> (i < j)%nat -> (j < n)%nat -> nth i (even n M) 0 < nth j (even n M) 0.
Proof. exact (even_increasing n M i j). Qed.
Print Assumptions C02_even_increasing.
Theorem C02_even_le_M n M i : 0 <= M -> (i < n)%nat -> nth i (even n M) 0 <= M.
Proof. exact (even_le_M n M i). Qed.
Print Assumptions C02_even_le_M.
Theorem C02_even_width n M i : (S i < n)%nat -> nth (S i) (even n M) 0 - nth i (even n M) 0 == M / inject_Z (Z.of_nat n).
Proof. exact (even_width n M i). Qed.
Print Assumptions C02_even_width.

(* 'uniform': the i/n quantiles of the distances within M: defined, n of them, non-decreasing, <= M *)
Theorem C02_uniform_length n D M : length (uniform n D M) = n.
Proof. exact (uniform_length n D M). Qed.
Print Assumptions C02_uniform_length.
Theorem C02_uniform_defined n D M i : within M D <> [] -> (i < n)%nat -> exists e, nth i (uniform n D M) None = Some e.
Proof. exact (uniform_defined n D M i). Qed.
Print Assumptions C02_uniform_defined.
Theorem C02_uniform_monotone n D M i j e e' : (i <= j)%nat -> (j < n)%nat ->
  nth i (uniform n D M) None = Some e -> nth j (uniform n D M) None = Some e' -> e <= e'.
Proof. exact (uniform_monotone n D M i j e e'). Qed.
Print Assumptions C02_uniform_monotone.
Theorem C02_uniform_le_M n D M i e : within M D <> [] -> (i < n)%nat -> nth i (uniform n D M) None = Some e -> e <= M.
Proof. exact (uniform_le_M n D M i e). Qed.
Print Assumptions C02_uniform_le_M.

(* numpy's linear-interpolated quantile is monotone in p and stays between the order statistics *)
Theorem C02_quantile_mono l p p' v v' :
  0 <= p -> p <= p' -> p' <= 1 -> quantile l p = Some v -> quantile l p' = Some v' -> v <= v'.
Proof. exact (quantile_mono l p p' v v'). Qed.
Print Assumptions C02_quantile_mono.

(* kmeans / ward: mid-point edges of sorted centres are non-decreasing and below their centres *)
Theorem C02_mid_edges_length c : length (mid_edges c) = length c.
Proof. exact (mid_edges_length c). Qed.
Print Assumptions C02_mid_edges_length.
Theorem C02_mid_edges_sorted c : chain 0 c -> chain 0 (mid_edges c) /\ Forall2 (fun e x => e <= x) (mid_edges c) c.
Proof. exact (mid_edges_sorted c). Qed.
Print Assumptions C02_mid_edges_sorted.

(* rule-based methods: k classes (the reported n_lags), non-decreasing, ending at the largest distance within M *)
Theorem C02_auto_length k lo hi : length (auto_edges k lo hi) = k.
Proof. exact (auto_length k lo hi). Qed.
Print Assumptions C02_auto_length.
Theorem C02_auto_last k lo hi : (0 < k)%nat -> nth (k - 1) (auto_edges k lo hi) 0 == hi.
Proof. exact (auto_last k lo hi). Qed.
Print Assumptions C02_auto_last.
Theorem C02_auto_le_hi k lo hi i : lo <= hi -> (i < k)%nat -> nth i (auto_edges k lo hi) 0 <= hi.
Proof. exact (auto_le_hi k lo hi i). Qed.
Print Assumptions C02_auto_le_hi.
Theorem C02_auto_monotone k lo hi i j : lo <= hi -> (i <= j)%nat -> (j < k)%nat ->
  nth i (auto_edges k lo hi) 0 <= nth j (auto_edges k lo hi) 0.
Proof. exact (auto_monotone k lo hi i j). Qed.
Print Assumptions C02_auto_monotone.

(* non-vacuity: concrete distances with at least two distinct values within the maximum lag *)
Example C02_nonvacuous :
  clip_maxlag (Some (5 # 2)) [1; 2; 2; 3] = Some (5 # 2) /\ within (5 # 2) [1; 2; 2; 3] = [1; 2; 2] /\
  Qeq_bool (nth 1 (even 2 (5 # 2)) 0) (5 # 2) = true /\
  match nth 1 (uniform 2 [1; 2; 2; 3] (5 # 2)) None with Some e => Qeq_bool e 2 | None => false end = true.
Proof. vm_compute. repeat split. Qed.
