(* C07 - ordinary kriging returns the solution of the ordinary-kriging system. *)
From SG Require Import Base.Prelude Base.NumpyPrims Model.Pairs Model.Kriging Proofs.PairsP Proofs.KrigingP Proofs.StableP.
Local Open Scope Q_scope.

(* neighbourhood: the columns within range ... *)
Theorem C07_candidates row m j d :
  In (j, d) (dense_candidates row (Some m)) <-> nth_error row j = Some d /\ d <= m.
Proof. exact (dense_candidates_spec row m j d). Qed.
Print Assumptions C07_candidates.

(* ... of which the at most N nearest are kept (all of them if fewer than N) *)
Theorem C07_closest cands N :
  let sel := if Nat.ltb N (length cands) then firstn N (sort_by cands) else cands in
  closest cands N = map fst sel /\
  (forall e, In e sel -> In e cands) /\
  length sel = Nat.min N (length cands) /\
  (forall e e', In e sel -> In e' cands -> ~ In e' sel -> NoDup cands -> snd e <= snd e').
Proof. exact (closest_spec cands N). Qed.
Print Assumptions C07_closest.

Theorem C07_sort_stable_perm l : Permutation l (sort_by l) /\ sorted_by (sort_by l).
Proof. split; [exact (sort_by_perm l)|exact (sort_by_sorted l)]. Qed.
Print Assumptions C07_sort_stable_perm.

(* the assembled rows are the ordinary-kriging equations: sum_j w_j gamma_ij + mu and sum w = 1 *)
Theorem C07_data_row (g w : list Q) m : length g = length w -> dot (g ++ [1]) (w ++ [m]) == dot g w + m.
Proof. exact (data_row g w m). Qed.
Print Assumptions C07_data_row.
Theorem C07_unit_row n (w : list Q) m : length w = n -> dot (repeat 1 n ++ [0]) (w ++ [m]) == sumQ w.
Proof. exact (last_row_sum n w m). Qed.
Print Assumptions C07_unit_row.

(* the kriging matrix is squareform of the condensed semivariances: entry (i,j) is the value of pair (i,j) *)
Theorem C07_condensed_index n i j : (i < j)%nat -> (j < n)%nat -> nth_error (pairs n) (cidx n i j) = Some (i, j).
Proof.
  intros H1 H2. pose proof (nth_error_pdist_seq n 0 i j ltac:(lia) H1 ltac:(lia)) as H.
  rewrite !Nat.sub_0_r in H. exact H.
Qed.
Print Assumptions C07_condensed_index.

(* bookkeeping: the i-th variance belongs to the i-th estimate, NaN together, counters = number of NaN *)
Theorem C07_aligned rs : zs (transform rs) = map res_z rs /\ sigmas (transform rs) = map res_s rs.
Proof. exact (transform_aligned rs). Qed.
Print Assumptions C07_aligned.
Theorem C07_bookkeeping rs : tinv (transform rs).
Proof. exact (transform_inv rs). Qed.
Print Assumptions C07_bookkeeping.

Example C07_nonvacuous :
  find_closest_dense [3; 1; 2; 1; 5] (Some 3) 2 = [1; 3]%nat /\
  n_nopoints (transform [inl (1, 2); inr NoPoints; inl (3, 4)]) = 1%nat /\
  sigmas (transform [inl (1, 2); inr NoPoints; inl (3, 4)]) = [Some 2; None; Some 4].
Proof. vm_compute. repeat split; reflexivity. Qed.

(* the sort is stable (np.argsort(kind="stable")): candidates at one and the same distance keep their index order, and the
   selected ones among them are the first ones - which equidistant observations enter a neighbourhood is determined *)
Theorem C07_sort_stable k l : filter (has_key k) (sort_by l) = filter (has_key k) l.
Proof. exact (sort_by_stable k l). Qed.
Print Assumptions C07_sort_stable.
Theorem C07_ties_by_position cands N k :
  exists m, filter (has_key k) (firstn N (sort_by cands)) = firstn m (filter (has_key k) cands).
Proof. exact (closest_ties_by_position cands N k). Qed.
Print Assumptions C07_ties_by_position.
