(* C13 (sectors): k sectors of width w = 180/k degrees whose azimuths -90 + w/2 + t*w (t < k) tile the half circle
   select every pair of distinct points at least once; a pair selected by two different sectors lies on the
   boundary of both (so off the boundaries the per-sector pair counts add up to the isotropic count). *)
From Coq Require Import Reals Lra Lia.
From SG Require Import Gen.Direction Proofs.DirectionP.
Local Open Scope R_scope.

(* a point of [0, k*c] lies in one of the k cells of width c *)
Lemma cell (c x : R) : forall k : nat, (0 < k)%nat -> 0 <= x -> x <= INR k * c ->
  exists t : nat, (t < k)%nat /\ INR t * c <= x /\ x <= (INR t + 1) * c.
Proof.
  induction k as [|k IH]; intros Hk H0 Hx; [lia|].
  destruct k as [|k'].
  - exists 0%nat. split; [lia|]. simpl in *. split; lra.
  - destruct (Rle_dec x (INR (S k') * c)) as [L|G].
    + destruct (IH ltac:(lia) H0 L) as (t & Ht & A & B). exists t. split; [lia|]. split; assumption.
    + exists (S k'). split; [lia|]. rewrite (S_INR (S k')) in Hx. split; lra.
Qed.

Lemma Rabs_le_inv' a b : Rabs a <= b -> - b <= a <= b.
Proof. unfold Rabs. destruct (Rcase_abs a); lra. Qed.

(* distance to the nearest multiple of pi, for the three multiples that can occur *)
Lemma fold_near_multiple y c : 0 <= c -> c <= PI / 2 ->
  (Rabs y <= c \/ Rabs (y - PI) <= c \/ Rabs (y + PI) <= c) -> fold (Rabs y) <= c.
Proof.
  intros Hc0 Hc H. pose proof PI_RGT_0 as Hpi. unfold fold.
  assert (Hy : Rabs y <= c \/ (PI - c <= Rabs y /\ Rabs y <= PI + c)).
  { destruct H as [H|[H|H]]; [left; exact H|right|right].
    - apply Rabs_le_inv' in H. unfold Rabs. destruct (Rcase_abs y); lra.
    - apply Rabs_le_inv' in H. unfold Rabs. destruct (Rcase_abs y); lra. }
  destruct (Rgt_dec (Rabs y) PI) as [G1|G1]; cbv zeta.
  - destruct (Rgt_dec (Rabs y - PI) (PI / 2)) as [G2|G2]; destruct Hy as [Hy|[Hy1 Hy2]]; lra.
  - destruct (Rgt_dec (Rabs y) (PI / 2)) as [G2|G2]; destruct Hy as [Hy|[Hy1 Hy2]]; lra.
Qed.

Theorem sectors_cover (k : nat) (w theta d : R) :
  (0 < k)%nat -> w * INR k = 180 -> - PI <= theta <= PI ->
  exists t : nat, (t < k)%nat /\ compass (-90 + w / 2 + INR t * w) w theta d.
Proof.
  intros Hk Hw Ht. pose proof PI_RGT_0 as Hpi.
  assert (Hkpos : 0 < INR k) by (apply lt_0_INR; exact Hk).
  assert (Hwpos : 0 < w) by nra.
  set (wr := w * PI / 180).
  assert (Hwr : INR k * wr = PI) by (unfold wr; replace (INR k * (w * PI / 180)) with ((w * INR k) * PI / 180) by field; rewrite Hw; field).
  assert (Hwr0 : 0 < wr) by (unfold wr; nra).
  assert (Hk1 : 1 <= INR k) by (replace 1 with (INR 1) by reflexivity; apply le_INR; lia).
  assert (Hwr2 : wr / 2 <= PI / 2) by nra.
  (* the multiple m*pi of pi inside [theta - pi/2, theta + pi/2] *)
  assert (Hm : exists mpi, (mpi = 0 \/ mpi = PI \/ mpi = - PI) /\ theta - PI / 2 <= mpi /\ mpi <= theta + PI / 2).
  { destruct (Rle_dec theta (- (PI / 2))) as [L|G]; [exists (- PI); split; [right; right; reflexivity|lra]|].
    destruct (Rle_dec theta (PI / 2)) as [L2|G2]; [exists 0; split; [left; reflexivity|lra]|].
    exists PI. split; [right; left; reflexivity|lra]. }
  destruct Hm as (mpi & Hmpi & Hlo & Hhi).
  (* position of the sector boundary grid: x = theta + pi/2 - mpi in [0, pi] = [0, k*wr] *)
  destruct (cell wr (theta + PI / 2 - mpi) k Hk ltac:(lra) ltac:(rewrite Hwr; lra)) as (t & Htk & A & B).
  (* the azimuths run against theta + az: use the mirrored cell index *)
  exists (k - 1 - t)%nat. split; [lia|].
  apply compass_unfold. fold wr.
  replace (w / 2 * PI / 180) with (wr / 2) by (unfold wr; field).
  assert (Ei : INR (k - 1 - t) = INR k - 1 - INR t).
  { rewrite !minus_INR by lia. simpl. ring. }
  set (y := theta + (-90 + w / 2 + INR (k - 1 - t) * w) * PI / 180).
  assert (Ey : y = theta - PI / 2 + wr / 2 + (INR k - 1 - INR t) * wr).
  { unfold y, wr. rewrite Ei. field. }
  assert (Ey2 : y = theta + PI / 2 - wr / 2 - INR t * wr).
  { rewrite Ey. replace ((INR k - 1 - INR t) * wr) with (INR k * wr - wr - INR t * wr) by ring. rewrite Hwr. lra. }
  apply fold_near_multiple; [lra|exact Hwr2|].
  assert (D : Rabs (y - mpi) <= wr / 2) by (apply Rabs_le; rewrite Ey2; lra).
  destruct Hmpi as [E|[E|E]]; subst mpi.
  - left. replace y with (y - 0) by ring. exact D.
  - right. left. exact D.
  - right. right. replace (y + PI) with (y - - PI) by ring. exact D.
Qed.

(* with the pair geometry: every pair of distinct points is selected by one of the k sectors *)
Theorem sectors_cover_pairs (k : nat) (w dx dy n d : R) :
  (0 < k)%nat -> w * INR k = 180 -> 0 < n -> n * n = dx * dx + dy * dy ->
  exists t : nat, (t < k)%nat /\ compass (-90 + w / 2 + INR t * w) w (pair_angle dx dy n) d.
Proof.
  intros Hk Hw Hn Hd. apply sectors_cover; [exact Hk|exact Hw|]. apply (theta_range dx dy n).
Qed.

(* ---- two different sectors share a pair only on their common boundary ---- *)
Lemma fold_inv y : Rabs y <= 2 * PI ->
  exists m, (m = 0 \/ m = PI \/ m = - PI \/ m = 2 * PI \/ m = - (2 * PI)) /\ Rabs (y - m) <= fold (Rabs y).
Proof.
  intro Hy. pose proof PI_RGT_0 as Hpi. unfold fold.
  destruct (Rcase_abs y) as [Hneg|Hpos].
  - rewrite (Rabs_left y Hneg) in *.
    destruct (Rgt_dec (- y) PI) as [G1|G1]; cbv zeta.
    + destruct (Rgt_dec (- y - PI) (PI / 2)) as [G2|G2].
      * exists (- (2 * PI)). split; [tauto|]. apply Rabs_le. lra.
      * exists (- PI). split; [tauto|]. apply Rabs_le. lra.
    + destruct (Rgt_dec (- y) (PI / 2)) as [G2|G2].
      * exists (- PI). split; [tauto|]. apply Rabs_le. lra.
      * exists 0. split; [tauto|]. apply Rabs_le. lra.
  - rewrite (Rabs_right y Hpos) in *.
    destruct (Rgt_dec y PI) as [G1|G1]; cbv zeta.
    + destruct (Rgt_dec (y - PI) (PI / 2)) as [G2|G2].
      * exists (2 * PI). split; [tauto|]. apply Rabs_le. lra.
      * exists PI. split; [tauto|]. apply Rabs_le. lra.
    + destruct (Rgt_dec y (PI / 2)) as [G2|G2].
      * exists PI. split; [tauto|]. apply Rabs_le. lra.
      * exists 0. split; [tauto|]. apply Rabs_le. lra.
Qed.

Lemma sectors_overlap_lt (k : nat) (w theta d : R) (t t' : nat) :
  (0 < k)%nat -> w * INR k = 180 -> - PI <= theta <= PI -> (t < t')%nat -> (t' < k)%nat ->
  compass (-90 + w / 2 + INR t * w) w theta d -> compass (-90 + w / 2 + INR t' * w) w theta d ->
  fold (Rabs (theta + (-90 + w / 2 + INR t * w) * PI / 180)) = w / 2 * PI / 180 /\
  fold (Rabs (theta + (-90 + w / 2 + INR t' * w) * PI / 180)) = w / 2 * PI / 180.
Proof.
  intros Hk Hw Ht Htt Htk C1 C2. pose proof PI_RGT_0 as Hpi.
  apply compass_unfold in C1. apply compass_unfold in C2.
  assert (Hkpos : 0 < INR k) by (apply lt_0_INR; exact Hk).
  assert (Hwpos : 0 < w) by nra.
  set (wr := w * PI / 180) in *.
  assert (Hwr : INR k * wr = PI) by (unfold wr; replace (INR k * (w * PI / 180)) with ((w * INR k) * PI / 180) by field; rewrite Hw; field).
  assert (Hwr0 : 0 < wr) by (unfold wr; nra).
  replace (w / 2 * PI / 180) with (wr / 2) in * by (unfold wr; field).
  set (y := theta + (-90 + w / 2 + INR t * w) * PI / 180) in *.
  set (y' := theta + (-90 + w / 2 + INR t' * w) * PI / 180) in *.
  assert (Ey : y = theta - PI / 2 + wr / 2 + INR t * wr) by (unfold y, wr; field).
  assert (Ey' : y' = theta - PI / 2 + wr / 2 + INR t' * wr) by (unfold y', wr; field).
  assert (T1 : INR t + 1 <= INR t') by (rewrite <- S_INR; apply le_INR; lia).
  assert (T2 : INR t' + 1 <= INR k) by (rewrite <- S_INR; apply le_INR; lia).
  assert (T0 : 0 <= INR t) by apply pos_INR.
  assert (D1 : wr <= y' - y) by (rewrite Ey, Ey'; nra).
  assert (D2 : y' - y <= PI - wr) by (rewrite Ey, Ey', <- Hwr; nra).
  assert (B1 : Rabs y <= 2 * PI) by (apply Rabs_le; rewrite Ey; nra).
  assert (B2 : Rabs y' <= 2 * PI) by (apply Rabs_le; rewrite Ey'; nra).
  destruct (fold_inv y B1) as (m & Hm & Em). destruct (fold_inv y' B2) as (m' & Hm' & Em').
  apply Rabs_le_inv' in Em. apply Rabs_le_inv' in Em'.
  set (f := fold (Rabs y)) in *. set (f' := fold (Rabs y')) in *.
  destruct Hm as [E|[E|[E|[E|E]]]]; destruct Hm' as [E'|[E'|[E'|[E'|E']]]]; subst m m'; split; lra.
Qed.

Theorem sectors_overlap_on_boundary (k : nat) (w theta d : R) (t t' : nat) :
  (0 < k)%nat -> w * INR k = 180 -> - PI <= theta <= PI -> (t < k)%nat -> (t' < k)%nat -> t <> t' ->
  compass (-90 + w / 2 + INR t * w) w theta d -> compass (-90 + w / 2 + INR t' * w) w theta d ->
  fold (Rabs (theta + (-90 + w / 2 + INR t * w) * PI / 180)) = w / 2 * PI / 180 /\
  fold (Rabs (theta + (-90 + w / 2 + INR t' * w) * PI / 180)) = w / 2 * PI / 180.
Proof.
  intros Hk Hw Ht H1 H2 Hne C1 C2. destruct (Nat.lt_ge_cases t t') as [L|G].
  - apply (sectors_overlap_lt k w theta d t t'); assumption.
  - assert (L : (t' < t)%nat) by lia.
    destruct (sectors_overlap_lt k w theta d t' t Hk Hw Ht L H1 C2 C1) as [A B]. split; assumption.
Qed.

(* non-vacuity: four sectors of 45 degrees, a pair pointing East is selected by the sector around azimuth 0 *)
Example sectors_example : (0 < 4)%nat /\ 45 * INR 4 = 180 /\ - PI <= 0 <= PI.
Proof. pose proof PI_RGT_0. split; [lia|]. split; [simpl; lra|lra]. Qed.
