(* Sorting and linear-interpolated quantile facts (all lengths). *)
From SG Require Import Base.Prelude Base.NumpyPrims Proofs.GroupsP.
Local Open Scope Q_scope.

Definition sorted (l : list Q) : Prop := match l with [] => True | x :: r => chain x r end.

Lemma chain_weaken lo lo' l : lo' <= lo -> chain lo l -> chain lo' l.
Proof. destruct l as [|x r]; [trivial|]. cbn. intros H [H1 H2]. split; [lra|exact H2]. Qed.

Lemma insert_chain lo x l : chain lo l -> lo <= x -> chain lo (insert x l).
Proof.
  revert lo. induction l as [|y r IH]; intros lo Hc Hx; cbn [insert].
  - cbn. split; [exact Hx|trivial].
  - destruct Hc as [H1 H2]. destruct (Qle_bool x y) eqn:E; qbool.
    + cbn. repeat split; try assumption.
    + cbn [chain]. split; [exact H1|]. apply IH; [exact H2|lra].
Qed.

Lemma sortQ_sorted l : sorted (sortQ l).
Proof.
  induction l as [|x r IH]; [exact I|]. cbn [sortQ].
  destruct (sortQ r) as [|y s] eqn:E; [cbn; trivial|].
  cbn [insert]. destruct (Qle_bool x y) eqn:Exy; qbool.
  - cbn. split; [exact Exy|exact IH].
  - cbn [sorted]. cbn [sorted] in IH. apply insert_chain; [exact IH|lra].
Qed.

Lemma insert_perm x l : Permutation (x :: l) (insert x l).
Proof.
  induction l as [|y r IH]; cbn [insert]; [apply Permutation_refl|].
  destruct (Qle_bool x y); [apply Permutation_refl|].
  eapply perm_trans; [apply perm_swap|]. apply perm_skip. exact IH.
Qed.

Lemma sortQ_perm l : Permutation l (sortQ l).
Proof.
  induction l as [|x r IH]; [apply perm_nil|]. cbn [sortQ].
  eapply perm_trans; [apply perm_skip; exact IH|apply insert_perm].
Qed.

Lemma sortQ_length l : length (sortQ l) = length l.
Proof. symmetry. apply Permutation_length. apply sortQ_perm. Qed.

Lemma sorted_nth s : sorted s -> forall a b, (a <= b)%nat -> (b < length s)%nat -> nth a s 0 <= nth b s 0.
Proof.
  destruct s as [|x r]; intros Hs a b Hab Hb; [cbn in Hb; lia|].
  cbn [sorted] in Hs. apply (chain_nth x r Hs a b Hab). cbn [length] in Hb. lia.
Qed.

(* ---- interpolation between order statistics ---- *)
Lemma floor_bounds x : inject_Z (Qfloor x) <= x /\ x < inject_Z (Qfloor x) + 1.
Proof.
  split; [apply Qfloor_le|]. pose proof (Qlt_floor x) as H.
  rewrite inject_Z_plus in H. exact H.
Qed.

Lemma interp_between s pos :
  sorted s -> 0 <= pos -> pos <= inject_Z (Z.of_nat (length s - 1)) -> s <> [] ->
  let i := Z.to_nat (Qfloor pos) in
  (i < length s)%nat /\ nth i s 0 <= interp s pos /\
  interp s pos <= nth (S i) s (nth i s 0) /\ nth i s 0 <= nth (S i) s (nth i s 0).
Proof.
  intros Hs H0 Hn Hne i.
  destruct (floor_bounds pos) as [F1 F2].
  assert (Hf0 : (0 <= Qfloor pos)%Z).
  { change 0%Z with (Qfloor 0). apply Qfloor_resp_le. exact H0. }
  assert (Hfn : (Qfloor pos <= Z.of_nat (length s - 1))%Z).
  { rewrite <- (Qfloor_Z (Z.of_nat (length s - 1))). apply Qfloor_resp_le. exact Hn. }
  assert (Hlen : (0 < length s)%nat) by (destruct s; [congruence|cbn; lia]).
  assert (Hi : (i < length s)%nat) by (unfold i; lia).
  assert (Hab : nth i s 0 <= nth (S i) s (nth i s 0)).
  { destruct (Nat.lt_ge_cases (S i) (length s)) as [Hlt|Hge].
    - rewrite (nth_indep s (nth i s 0) 0) by exact Hlt. apply sorted_nth; [exact Hs|lia|exact Hlt].
    - rewrite (nth_overflow s _ Hge). lra. }
  assert (Hg : 0 <= pos - inject_Z (Qfloor pos) /\ pos - inject_Z (Qfloor pos) < 1) by (split; lra).
  unfold interp. fold i.
  set (a := nth i s 0) in *. set (b := nth (S i) s a) in *. set (g := pos - inject_Z (Qfloor pos)) in *.
  repeat split; try assumption; nra.
Qed.

Theorem interp_mono s pos pos' :
  sorted s -> s <> [] -> 0 <= pos -> pos <= pos' -> pos' <= inject_Z (Z.of_nat (length s - 1)) ->
  interp s pos <= interp s pos'.
Proof.
  intros Hs Hne H0 Hpp Hn.
  destruct (interp_between s pos Hs H0 ltac:(lra) Hne) as (Hi & L1 & U1 & AB1).
  destruct (interp_between s pos' Hs ltac:(lra) Hn Hne) as (Hi' & L2 & U2 & AB2).
  assert (Hff : (Qfloor pos <= Qfloor pos')%Z) by (apply Qfloor_resp_le; exact Hpp).
  assert (Hf0 : (0 <= Qfloor pos)%Z) by (change 0%Z with (Qfloor 0); apply Qfloor_resp_le; exact H0).
  destruct (Z.eq_dec (Qfloor pos) (Qfloor pos')) as [E|NE].
  - unfold interp in *. rewrite <- E in *.
    set (a := nth (Z.to_nat (Qfloor pos)) s 0) in *. set (b := nth (S (Z.to_nat (Qfloor pos))) s a) in *.
    destruct (floor_bounds pos) as [F1 F2]. nra.
  - assert (Hlt : (S (Z.to_nat (Qfloor pos)) <= Z.to_nat (Qfloor pos'))%nat) by lia.
    rewrite (nth_indep s (nth (Z.to_nat (Qfloor pos)) s 0) 0) in U1 by lia.
    pose proof (sorted_nth s Hs _ _ Hlt Hi') as Hm. lra.
Qed.

Theorem interp_bounds s pos :
  sorted s -> s <> [] -> 0 <= pos -> pos <= inject_Z (Z.of_nat (length s - 1)) ->
  nth 0 s 0 <= interp s pos /\ interp s pos <= nth (length s - 1) s 0.
Proof.
  intros Hs Hne H0 Hn.
  destruct (interp_between s pos Hs H0 Hn Hne) as (Hi & L1 & U1 & AB1).
  split.
  - pose proof (sorted_nth s Hs 0%nat _ ltac:(lia) Hi). lra.
  - destruct (Nat.lt_ge_cases (S (Z.to_nat (Qfloor pos))) (length s)) as [Hlt|Hge].
    + rewrite (nth_indep s (nth (Z.to_nat (Qfloor pos)) s 0) 0) in U1 by exact Hlt.
      pose proof (sorted_nth s Hs (S (Z.to_nat (Qfloor pos))) (length s - 1)%nat ltac:(lia) ltac:(lia)). lra.
    + rewrite (nth_overflow s _ Hge) in U1.
      pose proof (sorted_nth s Hs (Z.to_nat (Qfloor pos)) (length s - 1)%nat ltac:(lia) ltac:(lia)). lra.
Qed.

Lemma quantile_some l p v : quantile l p = Some v ->
  l <> [] /\ v = interp (sortQ l) (inject_Z (Z.of_nat (length l - 1)) * p).
Proof.
  unfold quantile. destruct l as [|x r]; [discriminate|]. intro H. injection H as H.
  split; [discriminate|symmetry; exact H].
Qed.

Lemma sortQ_nonempty l : l <> [] -> sortQ l <> [].
Proof.
  intros Hne E. apply (f_equal (@length Q)) in E. rewrite sortQ_length in E.
  destruct l; [congruence|discriminate].
Qed.

(* quantile of a list: monotone in p and between the extreme order statistics *)
Theorem quantile_mono l p p' v v' :
  0 <= p -> p <= p' -> p' <= 1 -> quantile l p = Some v -> quantile l p' = Some v' -> v <= v'.
Proof.
  intros H0 Hpp H1 Hv Hv'.
  apply quantile_some in Hv. apply quantile_some in Hv'. destruct Hv as [Hne ->]. destruct Hv' as [_ ->].
  set (n1 := inject_Z (Z.of_nat (length l - 1))).
  assert (Hn1 : 0 <= n1) by (unfold n1; change 0 with (inject_Z 0); rewrite <- Zle_Qle; lia).
  apply interp_mono.
  - apply sortQ_sorted.
  - apply sortQ_nonempty. exact Hne.
  - nra.
  - nra.
  - rewrite sortQ_length. fold n1. nra.
Qed.

Theorem quantile_bounds l p v :
  0 <= p -> p <= 1 -> quantile l p = Some v ->
  nth 0 (sortQ l) 0 <= v /\ v <= nth (length l - 1) (sortQ l) 0.
Proof.
  intros H0 H1 Hv. apply quantile_some in Hv. destruct Hv as [Hne ->].
  set (n1 := inject_Z (Z.of_nat (length l - 1))).
  assert (Hn1 : 0 <= n1) by (unfold n1; change 0 with (inject_Z 0); rewrite <- Zle_Qle; lia).
  rewrite <- (sortQ_length l). apply interp_bounds.
  - apply sortQ_sorted.
  - apply sortQ_nonempty. exact Hne.
  - fold n1. nra.
  - rewrite sortQ_length. fold n1. nra.
Qed.

(* every element of a list lies between the extreme order statistics; used for "never exceeds" *)
Lemma In_sorted_le_last s x : sorted s -> In x s -> x <= nth (length s - 1) s 0.
Proof.
  intros Hs Hin. destruct (In_nth s x 0 Hin) as (k & Hk & <-).
  apply sorted_nth; [exact Hs|lia|lia].
Qed.

Lemma last_order_stat_in l : l <> [] -> In (nth (length l - 1) (sortQ l) 0) l.
Proof.
  intro Hne. apply (Permutation_in _ (Permutation_sym (sortQ_perm l))).
  apply nth_In. rewrite sortQ_length. destruct l; [congruence|cbn; lia].
Qed.
