From SG Require Import Base.Prelude Base.NumpyPrims Model.Fit Model.Jackknife.
Local Open Scope Q_scope.

(* ================= C04 ================= *)
Definition pairQeq (a b : list Q * Q) : Prop := fst a = fst b /\ snd a == snd b.

Lemma firstn_app_len {A} (l1 l2 : list A) : firstn (length l1) (l1 ++ l2) = l1.
Proof. rewrite firstn_app, Nat.sub_diag, firstn_all. cbn. apply app_nil_r. Qed.
Lemma nth_app_len {A} (l1 l2 : list A) d : nth (length l1) (l1 ++ l2) d = nth 0 l2 d.
Proof. rewrite app_nth2, Nat.sub_diag by lia. reflexivity. Qed.

Lemma interp_plain (p : list Q) : interp (length p) p = (p, 0).
Proof. unfold interp. rewrite firstn_all, nth_overflow by lia. reflexivity. Qed.
Lemma interp_app1 (p : list Q) n : interp (length p) (p ++ [n]) = (p, n).
Proof. unfold interp. rewrite firstn_app_len, nth_app_len. reflexivity. Qed.
Lemma firstn_plain {A} (p : list A) : firstn (length p) p = p.
Proof. apply firstn_all. Qed.

(* automatic fits: cof = params ++ [n] iff use_nugget.  All views denote (params, nugget-or-0). *)
Theorem views_agree_auto k use_nugget params n :
  length params = k ->
  let cof := cof_auto k use_nugget params n in
  let truth := (params, if use_nugget then n else 0) in
  pairQeq (interp k cof) truth /\ pairQeq (interp k (parameters k use_nugget cof)) truth /\ pairQeq (interp k (krige_args k use_nugget cof)) truth.
Proof.
  intros Hk cof truth. subst k. unfold cof, truth, cof_auto, parameters, krige_args, describe_nugget, pairQeq.
  destruct use_nugget.
  - rewrite last_last, firstn_app_len, !interp_app1. cbn [fst snd].
    repeat split; try reflexivity.
    + destruct (Qeq_bool n 0); [rewrite app_nil_r, interp_plain|rewrite interp_app1]; reflexivity.
    + destruct (Qeq_bool n 0) eqn:E; [rewrite app_nil_r, interp_plain; cbn [snd]; apply Qeq_bool_eq in E; symmetry; exact E|rewrite interp_app1; reflexivity].
  - rewrite app_nil_r, firstn_plain, interp_plain. change (Qeq_bool 0 0) with true.
    rewrite interp_app1, app_nil_r, interp_plain. cbn [fst snd]. repeat split; reflexivity.
Qed.

(* manual fits: cof = params ++ [n] always; with the nugget disabled n is 0 (the fit switches use_nugget on
   whenever a nugget is passed) *)
Theorem views_agree_manual k use_nugget params n :
  length params = k -> (use_nugget = false -> n == 0) ->
  let cof := cof_manual params n in
  let truth := (params, n) in
  pairQeq (interp k cof) truth /\ pairQeq (interp k (parameters k use_nugget cof)) truth /\ pairQeq (interp k (krige_args k use_nugget cof)) truth.
Proof.
  intros Hk Hn cof truth. subst k. unfold cof, truth, cof_manual, parameters, krige_args, describe_nugget, pairQeq.
  rewrite firstn_app_len, interp_app1. cbn [fst snd].
  destruct use_nugget.
  - rewrite last_last, interp_app1. cbn [fst snd]. repeat split; try reflexivity.
    + destruct (Qeq_bool n 0); [rewrite app_nil_r, interp_plain|rewrite interp_app1]; reflexivity.
    + destruct (Qeq_bool n 0) eqn:E; [rewrite app_nil_r, interp_plain; cbn [snd]; apply Qeq_bool_eq in E; symmetry; exact E|rewrite interp_app1; reflexivity].
  - specialize (Hn eq_refl). change (Qeq_bool 0 0) with true. rewrite interp_app1, app_nil_r, interp_plain. cbn [fst snd].
    repeat split; try reflexivity; symmetry; exact Hn.
Qed.

(* with the nugget disabled the reported nugget is 0 *)
Theorem no_nugget_reported k cof : describe_nugget false cof = 0 /\ snd (interp k (parameters k false cof)) = nth k (firstn k cof ++ [0]) 0.
Proof. split; reflexivity. Qed.

(* ================= C05 ================= *)
Lemma keep_cons {A} b (m : list bool) (x : A) l : keep (b :: m) (x :: l) = if b then x :: keep m l else keep m l.
Proof. unfold keep. cbn [combine filter fst]. destruct b; reflexivity. Qed.

(* lags, semivariances and weights stay aligned: position i of all three filtered vectors comes from the
   same lag class *)
Theorem fit_alignment (bins sigma : list Q) (exp : list (option Q)) :
  length bins = length exp -> length sigma = length exp ->
  combine (combine (fit_x bins exp) (fit_y exp)) (fit_sigma sigma exp) =
  somes (map (fun t => match snd (fst t) with Some y => Some (fst (fst t), y, snd t) | None => None end)
             (combine (combine bins exp) sigma)).
Proof.
  unfold fit_x, fit_y, fit_sigma. revert bins sigma.
  induction exp as [|e r IH]; intros bins sigma Hb Hs.
  - destruct bins; [|discriminate]. destruct sigma; [|discriminate]. reflexivity.
  - destruct bins as [|b bs]; [discriminate|]. destruct sigma as [|s ss]; [discriminate|].
    cbn [notnan map]. rewrite !keep_cons. cbn [combine map somes fst snd].
    destruct e as [y|]; cbn [somes combine]; rewrite <- (IH bs ss) by (cbn in *; lia); reflexivity.
Qed.

Lemma keep_length {A} (exp : list (option Q)) (l : list A) : length l = length exp -> length (keep (notnan exp) l) = length (somes exp).
Proof.
  revert l. induction exp as [|e r IH]; intros l Hl; destruct l as [|x xs]; try discriminate; [reflexivity|].
  cbn [notnan map]. rewrite keep_cons. destruct e; cbn [somes length]; rewrite <- (IH xs) by (cbn in Hl; lia); reflexivity.
Qed.

Theorem fit_lengths (bins sigma : list Q) (exp : list (option Q)) :
  length bins = length exp -> length sigma = length exp ->
  length (fit_x bins exp) = length (fit_y exp) /\ length (fit_sigma sigma exp) = length (fit_y exp).
Proof. intros Hb Hs. unfold fit_x, fit_sigma, fit_y. split; apply keep_length; assumption. Qed.

(* an empty lag class (NaN) does not influence the problem: deleting the class beforehand gives the same
   lags, semivariances and weights *)
Theorem nan_class_irrelevant (bins sigma : list Q) (exp : list (option Q)) i :
  length bins = length exp -> length sigma = length exp -> nth_error exp i = Some None ->
  fit_x (delete i bins) (delete i exp) = fit_x bins exp /\ fit_y (delete i exp) = fit_y exp /\
  fit_sigma (delete i sigma) (delete i exp) = fit_sigma sigma exp.
Proof.
  unfold fit_x, fit_y, fit_sigma. revert bins sigma i.
  induction exp as [|e r IH]; intros bins sigma i Hb Hs Hi; [destruct i; discriminate|].
  destruct bins as [|b bs]; [discriminate|]. destruct sigma as [|s ss]; [discriminate|].
  destruct i as [|i].
  - cbn in Hi. injection Hi as ->. cbn [delete notnan map somes]. rewrite !keep_cons. repeat split; reflexivity.
  - cbn [nth_error] in Hi. cbn [delete notnan map]. rewrite !keep_cons.
    destruct (IH bs ss i ltac:(cbn in Hb; lia) ltac:(cbn in Hs; lia) Hi) as (A & B & C).
    unfold notnan in *. destruct e; cbn [somes]; rewrite ?A, ?B, ?C; repeat split; reflexivity.
Qed.

(* documented bounds of a single model *)
Theorem bounds_documented sb mx my nug :
  nth 0 (bounds_one sb mx my nug) 0 = mx /\ nth 1 (bounds_one sb mx my nug) 0 = my /\
  (forall s, sb = Some s -> nth 2 (bounds_one sb mx my nug) 0 = s) /\
  (nug = true -> last (bounds_one sb mx my nug) 0 = (99 # 100) * my) /\
  length (bounds_one sb mx my nug) = (2 + (if sb then 1 else 0) + (if nug then 1 else 0))%nat.
Proof.
  unfold bounds_one. destruct sb, nug; cbn; repeat split; try reflexivity; intros; try congruence; try discriminate.
Qed.

(* the wrapped model with a 0 appended is the model without nugget *)
Theorem wrapped_spec (m : Q -> list Q -> Q) x p : wrapped m true x p = m x p /\ wrapped m false x p = m x (p ++ [0]).
Proof. split; reflexivity. Qed.
