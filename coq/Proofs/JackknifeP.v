From SG Require Import Base.Prelude Base.NumpyPrims Model.Jackknife.
Local Open Scope Q_scope.

Lemma delete_nth {A} (l : list A) : forall i k d, (i < length l)%nat ->
  nth k (delete i l) d = nth (if (k <? i)%nat then k else S k) l d.
Proof.
  induction l as [|x r IH]; intros i k d Hi; [cbn in Hi; lia|].
  destruct i as [|i]; cbn [delete].
  - reflexivity.
  - destruct k as [|k]; [reflexivity|]. cbn [nth]. rewrite (IH i k d) by (cbn in Hi; lia).
    change (S k <? S i)%nat with (k <? i)%nat. destruct (k <? i)%nat; reflexivity.
Qed.

Lemma delete_length {A} (l : list A) : forall i, (i < length l)%nat -> length (delete i l) = (length l - 1)%nat.
Proof.
  induction l as [|x r IH]; intros i Hi; [cbn in Hi; lia|].
  destruct i as [|i]; cbn [delete length]; [lia|]. rewrite IH by (cbn in Hi; lia). cbn in Hi. lia.
Qed.

Theorem held_out_excluded {A} (l : list A) i d : (i < length l)%nat -> NoDup l -> ~ In (nth i l d) (delete i l).
Proof.
  intros Hi Hnd Hin. destruct (In_nth _ _ d Hin) as (k & Hk & E).
  rewrite delete_length in Hk by exact Hi. rewrite delete_nth in E by exact Hi.
  rewrite NoDup_nth in Hnd. destruct (k <? i)%nat eqn:Eki.
  - apply Nat.ltb_lt in Eki. specialize (Hnd k i ltac:(lia) Hi E). lia.
  - apply Nat.ltb_ge in Eki. specialize (Hnd (S k) i ltac:(lia) Hi E). lia.
Qed.

Lemma estimable_some l : estimable (map Some l) = l.
Proof. induction l as [|x r IH]; cbn; [reflexivity|]. rewrite IH. reflexivity. Qed.

Theorem scores_over_estimable (res : list (option Q)) :
  mse res = mse (map Some (estimable res)) /\ mae res = mae (map Some (estimable res)).
Proof. unfold mse, mae. rewrite estimable_some. split; reflexivity. Qed.
