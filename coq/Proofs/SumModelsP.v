(* C03: a '+'-joined sum of models equals the sum of its components with a single shared nugget. *)
From SG Require Import Base.Prelude Base.NumpyPrims Model.SumModels.
Local Open Scope Q_scope.

(* sum of the components evaluated without nugget on consecutive parameter blocks *)
Fixpoint sum_plain (comps : list (nat * (Q -> list Q -> Q -> Q))) (h : Q) (params : list Q) : Q :=
  match comps with
  | [] => 0
  | (k, f) :: cr => f h (firstn k params) 0 + sum_plain cr h (skipn k params)
  end.

Definition additive (f : Q -> list Q -> Q -> Q) : Prop := forall h p b, f h p b == f h p 0 + b.

Definition total (comps : list (nat * (Q -> list Q -> Q -> Q))) : nat := list_sum (map fst comps).

Lemma firstn_app_exact {A} (l1 l2 : list A) : firstn (length l1) (l1 ++ l2) = l1.
Proof. rewrite firstn_app, Nat.sub_diag, firstn_all. cbn. apply app_nil_r. Qed.

Lemma sum_models_cons k f cr h s sr :
  sum_models ((k, f) :: cr) h (s :: sr) = call_component k f h s + sum_models cr h sr.
Proof. reflexivity. Qed.
Lemma sum_plain_cons k f cr h params :
  sum_plain ((k, f) :: cr) h params = f h (firstn k params) 0 + sum_plain cr h (skipn k params).
Proof. reflexivity. Qed.

Lemma split_args_cons2 {A} k k2 ks (args : list A) :
  split_args (k :: k2 :: ks) args = firstn k args :: split_args (k2 :: ks) (skipn k args).
Proof. reflexivity. Qed.

(* with the nugget appended: sum of the plain components plus that nugget, once *)
Theorem sum_with_nugget comps h params n :
  comps <> [] -> Forall (fun c => additive (snd c)) comps -> length params = total comps ->
  sum_model comps h (params ++ [n]) == sum_plain comps h params + n.
Proof.
  unfold sum_model, total. revert params.
  induction comps as [|[k f] cr IH]; intros params Hne Hadd Hlen; [congruence|].
  inversion Hadd as [|? ? Hf Hrest]; subst. cbn [snd] in Hf.
  destruct cr as [|c2 cr'].
  - cbn [map fst split_args sum_models sum_plain list_sum] in *.
    assert (Hk : k = length params) by (cbn in Hlen; lia). subst k.
    unfold call_component.
    rewrite firstn_all2 by (rewrite app_length; cbn; lia).
    rewrite app_length. cbn [length].
    replace (length params <? length params + 1)%nat with true by (symmetry; apply Nat.ltb_lt; lia).
    rewrite firstn_app_exact, app_nth2, Nat.sub_diag by lia. cbn [nth].
    rewrite firstn_all. assert (E : f h params n == f h params 0 + n) by apply Hf. rewrite E. ring.
  - change (map fst ((k, f) :: c2 :: cr')) with (k :: fst c2 :: map fst cr').
    rewrite split_args_cons2. change (fst c2 :: map fst cr') with (map fst (c2 :: cr')).
    rewrite sum_models_cons, sum_plain_cons.
    assert (Hk : (k <= length params)%nat) by (cbn in Hlen; lia).
    rewrite firstn_app, skipn_app.
    replace (k - length params)%nat with 0%nat by lia. cbn [firstn skipn]. rewrite app_nil_r.
    unfold call_component. rewrite firstn_length, Nat.min_l by lia. rewrite Nat.ltb_irrefl.
    rewrite (IH (skipn k params)); [ring|discriminate|exact Hrest|].
    rewrite skipn_length. cbn in Hlen. cbn. lia.
Qed.

(* without nugget: the truncated last slice makes every component use its default nugget 0 *)
Theorem sum_without_nugget comps h params :
  length params = total comps -> sum_model comps h params == sum_plain comps h params.
Proof.
  unfold sum_model, total. revert params.
  induction comps as [|[k f] cr IH]; intros params Hlen; [reflexivity|].
  destruct cr as [|c2 cr'].
  - cbn [map fst split_args sum_models sum_plain list_sum] in *.
    assert (Hk : k = length params) by (cbn in Hlen; lia). subst k. unfold call_component.
    rewrite firstn_all2 by lia. rewrite Nat.ltb_irrefl, firstn_all. ring.
  - change (map fst ((k, f) :: c2 :: cr')) with (k :: fst c2 :: map fst cr').
    rewrite split_args_cons2. change (fst c2 :: map fst cr') with (map fst (c2 :: cr')).
    rewrite sum_models_cons, sum_plain_cons.
    assert (Hk : (k <= length params)%nat) by (cbn in Hlen; lia).
    unfold call_component. rewrite firstn_length, Nat.min_l by lia. rewrite Nat.ltb_irrefl.
    rewrite (IH (skipn k params)); [ring|]. rewrite skipn_length. cbn in Hlen. cbn. lia.
Qed.

(* the slice boundaries are consecutive and the last one is one longer *)
Theorem slice_bounds_consecutive sizes : forall start i a b c d,
  nth_error (slice_bounds_from start sizes) i = Some (a, b) ->
  nth_error (slice_bounds_from start sizes) (S i) = Some (c, d) -> c = b.
Proof.
  induction sizes as [|k rest IH]; intros start i a b c d H1 H2; [destruct i; discriminate|].
  destruct rest as [|k2 rest'].
  - cbn in H2. destruct i; discriminate.
  - change (slice_bounds_from start (k :: k2 :: rest')) with ((start, start + k)%nat :: slice_bounds_from (start + k) (k2 :: rest')) in *.
    destruct i as [|i].
    + cbn [nth_error] in H1, H2. injection H1 as <- <-.
      destruct rest'; cbn in H2; injection H2 as <- _; reflexivity.
    + cbn [nth_error] in H1, H2. exact (IH _ _ _ _ _ _ H1 H2).
Qed.
