(* C14 / C15 structure: open-closed lag groups, cell order of the table, marginals, fit samples. *)
From SG Require Import Base.Prelude Base.NumpyPrims Model.Pairs Model.SpaceTime Proofs.PairsP Proofs.GroupsP.
Local Open Scope Q_scope.

(* ---------- (lo, hi] classification ---------- *)
Fixpoint first_at_or_above (i : nat) (edges : list Q) (d : Q) : option nat :=
  match edges with
  | [] => None
  | hi :: rest => if Qle_bool d hi then Some i else first_at_or_above (S i) rest d
  end.

Lemma assign_oc_below i lo edges d cur : chain lo edges -> d <= lo -> assign_oc i lo edges d cur = cur.
Proof.
  revert i lo cur. induction edges as [|hi r IH]; intros i lo cur Hc Hd; cbn [assign_oc]; [reflexivity|].
  destruct Hc as [H1 H2]. unfold in_class_oc.
  replace (Qltb lo d) with false by (symmetry; qbool; exact Hd). cbn [andb]. apply IH; [exact H2|lra].
Qed.

Lemma assign_oc_first i lo edges d cur : chain lo edges -> lo < d ->
  assign_oc i lo edges d cur = match first_at_or_above i edges d with Some k => Some k | None => cur end.
Proof.
  revert i lo cur. induction edges as [|hi r IH]; intros i lo cur Hc Hd; cbn [assign_oc first_at_or_above]; [reflexivity|].
  destruct Hc as [H1 H2]. unfold in_class_oc.
  replace (Qltb lo d) with true by (symmetry; qbool; exact Hd). cbn [andb].
  destruct (Qle_bool d hi) eqn:E; qbool.
  - apply assign_oc_below; assumption.
  - apply IH; assumption.
Qed.

Lemma first_at_or_above_iff edges : forall k d i,
  first_at_or_above k edges d = Some i <->
  exists j, i = (k + j)%nat /\ (j < length edges)%nat /\ d <= nth j edges 0 /\ forall t, (t < j)%nat -> nth t edges 0 < d.
Proof.
  induction edges as [|hi r IH]; intros k d i; cbn [first_at_or_above].
  - split; [discriminate|]. intros (j & _ & H & _). cbn in H. lia.
  - destruct (Qle_bool d hi) eqn:E; qbool.
    + split.
      * intro H. inv H. exists 0%nat. cbn [nth length]. repeat split; try lia; try assumption.
      * intros (j & -> & Hj & Hd & Hall). destruct j as [|j]; [f_equal; lia|].
        exfalso. specialize (Hall 0%nat ltac:(lia)). cbn [nth] in Hall. lra.
    + rewrite IH. split.
      * intros (j & -> & Hj & Hd & Hall). exists (S j). cbn [nth length]. repeat split; try lia; try assumption.
        intros t Ht. destruct t as [|t]; [exact E|]. apply Hall. lia.
      * intros (j & -> & Hj & Hd & Hall). destruct j as [|j]; [cbn [nth] in Hd; lra|].
        exists j. cbn [nth length] in *. repeat split; try lia; try assumption.
        intros t Ht. apply (Hall (S t)). lia.
Qed.

Definition in_class_oc_i (edges : list Q) (i : nat) (d : Q) : bool :=
  Nat.ltb i (length edges) && in_class_oc (nth i (0 :: edges) 0) (nth i edges 0) d.

Theorem group_oc_spec edges d i :
  chain 0 edges -> (group_oc edges d = Some i <-> in_class_oc_i edges i d = true).
Proof.
  intro Hc. unfold group_oc, in_class_oc_i, in_class_oc.
  rewrite !andb_true_iff, Nat.ltb_lt, Qltb_lt, Qle_bool_iff.
  destruct (Qlt_le_dec 0 d) as [Hpos|Hneg].
  - rewrite assign_oc_first by assumption.
    destruct (first_at_or_above 0 edges d) as [k|] eqn:E.
    + apply first_at_or_above_iff in E. destruct E as (j & -> & Hj & Hd & Hall). cbn [Nat.add].
      split.
      * intro H. inv H. repeat split; try assumption.
        destruct i as [|i]; [exact Hpos|]. cbn [nth]. apply Hall. lia.
      * intros (Hi & Hlo & Hhi). f_equal.
        destruct (Nat.lt_trichotomy i j) as [Hlt|[Heq|Hgt]]; [|symmetry; exact Heq|]; exfalso.
        -- specialize (Hall i Hlt). lra.
        -- pose proof (chain_nth 0 edges Hc (S j) i ltac:(lia) ltac:(lia)) as H.
           change (nth (S j) (0 :: edges) 0) with (nth j edges 0) in H. lra.
    + split; [discriminate|]. intros (Hi & Hlo & Hhi). exfalso.
      assert (Hex : exists k, first_at_or_above 0 edges d = Some k).
      { exists i. apply first_at_or_above_iff. exists i. repeat split; try assumption.
        intros t Ht.
        pose proof (chain_nth 0 edges Hc (S t) i ltac:(lia) ltac:(lia)) as H.
        change (nth (S t) (0 :: edges) 0) with (nth t edges 0) in H. lra. }
      destruct Hex as [k Hk]. congruence.
  - rewrite assign_oc_below by assumption. split; [discriminate|].
    intros (Hi & Hlo & _). exfalso.
    pose proof (chain_nth 0 edges Hc 0%nat i ltac:(lia) ltac:(lia)) as H.
    change (nth 0 (0 :: edges) 0) with 0 in H. lra.
Qed.

(* ---------- the combined difference table ---------- *)
Theorem st_diff_spec (v : list (list Q)) (T : nat) r c a b s t :
  nth_error (pairs (length v)) r = Some (a, b) -> nth_error (pairs T) c = Some (s, t) ->
  nth c (nth r (st_diff v T) []) 0 = Qabs (nth s (nth a v []) 0 - nth t (nth b v []) 0).
Proof.
  intros Hr Hc. unfold st_diff.
  rewrite (pdist_as_pairs _ [] v).
  rewrite (nth_indep _ [] ((fun p => map (fun q => Qabs (nth (fst q) (nth (fst p) v []) 0 - nth (snd q) (nth (snd p) v []) 0)) (pairs T)) (0%nat, 0%nat))).
  2:{ rewrite map_length. apply nth_error_Some. rewrite Hr. discriminate. }
  rewrite (map_nth (fun p => map (fun q => Qabs (nth (fst q) (nth (fst p) v []) 0 - nth (snd q) (nth (snd p) v []) 0)) (pairs T))).
  rewrite (nth_error_nth _ _ (0%nat, 0%nat) Hr). cbn [fst snd].
  rewrite (nth_indep _ 0 ((fun q => Qabs (nth (fst q) (nth a v []) 0 - nth (snd q) (nth b v []) 0)) (0%nat, 0%nat))).
  2:{ rewrite map_length. apply nth_error_Some. rewrite Hc. discriminate. }
  rewrite (map_nth (fun q => Qabs (nth (fst q) (nth a v []) 0 - nth (snd q) (nth b v []) 0))).
  rewrite (nth_error_nth _ _ (0%nat, 0%nat) Hc). reflexivity.
Qed.

(* ---------- order of the experimental table and the marginals ---------- *)
Lemma nth_flat_map_block {A B} (f : A -> list B) (T : nat) (l : list A) (d : B) (da : A) :
  (forall x, length (f x) = T) -> forall i j, (i < length l)%nat -> (j < T)%nat ->
  nth (i * T + j) (flat_map f l) d = nth j (f (nth i l da)) d.
Proof.
  intro HT. induction l as [|x r IH]; intros i j Hi Hj; [cbn in Hi; lia|].
  cbn [flat_map]. destruct i as [|i].
  - cbn [Nat.mul Nat.add nth]. rewrite app_nth1 by (rewrite HT; exact Hj). reflexivity.
  - rewrite app_nth2 by (rewrite HT; cbn; lia). rewrite HT.
    replace (S i * T + j - T)%nat with (i * T + j)%nat by (cbn; lia).
    cbn [nth]. apply IH; [cbn in Hi; lia|exact Hj].
Qed.

Theorem st_order {Y} (est : list Q -> Y) diff xg tg X T i j (d : Y) :
  (i < X)%nat -> (j < T)%nat ->
  nth (i * T + j) (st_experimental est diff xg tg X T) d = est (cell diff xg tg i j).
Proof.
  intros Hi Hj. unfold st_experimental.
  rewrite (nth_flat_map_block _ T (seq 0 X) d 0%nat) by (try (intro x; rewrite map_length, seq_length; reflexivity); try (rewrite seq_length; exact Hi); exact Hj).
  rewrite seq_nth by exact Hi. cbn [Nat.add].
  rewrite (nth_indep _ d ((fun j0 => est (cell diff xg tg i j0)) 0%nat)) by (rewrite map_length, seq_length; exact Hj).
  rewrite (map_nth (fun j0 => est (cell diff xg tg i j0))). rewrite seq_nth by exact Hj. reflexivity.
Qed.

Theorem marginal_space_is_column {Y} (est : list Q -> Y) diff xg tg X T i j (d : Y) :
  (i < X)%nat -> (j < T)%nat ->
  nth i (marginal_space est diff xg tg X j) d = nth (i * T + j) (st_experimental est diff xg tg X T) d.
Proof.
  intros Hi Hj. rewrite st_order by assumption. unfold marginal_space.
  rewrite (nth_indep _ d ((fun i0 => est (cell diff xg tg i0 j)) 0%nat)) by (rewrite map_length, seq_length; exact Hi).
  rewrite (map_nth (fun i0 => est (cell diff xg tg i0 j))). rewrite seq_nth by exact Hi. reflexivity.
Qed.

Theorem marginal_time_is_row {Y} (est : list Q -> Y) diff xg tg X T i j (d : Y) :
  (i < X)%nat -> (j < T)%nat ->
  nth j (marginal_time est diff xg tg T i) d = nth (i * T + j) (st_experimental est diff xg tg X T) d.
Proof.
  intros Hi Hj. rewrite st_order by assumption. unfold marginal_time.
  rewrite (nth_indep _ d ((fun j0 => est (cell diff xg tg i j0)) 0%nat)) by (rewrite map_length, seq_length; exact Hj).
  rewrite (map_nth (fun j0 => est (cell diff xg tg i j0))). rewrite seq_nth by exact Hj. reflexivity.
Qed.

(* ---------- C15: every semivariance is paired with the lags of its own cell ---------- *)
Definition lag_grid (xb tb : list Q) : list (Q * Q) := flat_map (fun x => map (fun t => (x, t)) tb) xb.

Theorem lag_grid_cell xb tb i j :
  (i < length xb)%nat -> (j < length tb)%nat ->
  nth (i * length tb + j) (lag_grid xb tb) (0, 0) = (nth i xb 0, nth j tb 0).
Proof.
  intros Hi Hj. unfold lag_grid.
  rewrite (nth_flat_map_block _ (length tb) xb (0, 0) 0) by (try (intro x; rewrite map_length; reflexivity); assumption).
  rewrite (nth_indep _ (0, 0) ((fun t => (nth i xb 0, t)) 0)) by (rewrite map_length; exact Hj).
  rewrite (map_nth (fun t => (nth i xb 0, t))). reflexivity.
Qed.

(* NaN cells contribute no sample; every other cell exactly one, with its own lags *)
Theorem fit_samples_spec {Y} (xb tb : list Q) (z : list (option Y)) x t y :
  In (x, t, y) (fit_samples xb tb z) <-> In ((x, t), Some y) (combine (lag_grid xb tb) z).
Proof.
  unfold fit_samples. fold (lag_grid xb tb). rewrite in_flat_map. split.
  - intros ([[x' t'] [y'|]] & Hin & H); cbn [fst snd] in H; [|destruct H].
    destruct H as [E|[]]. injection E as <- <- <-. exact Hin.
  - intro Hin. exists ((x, t), Some y). split; [exact Hin|]. cbn [fst snd]. left. reflexivity.
Qed.
