(* C03: the theoretical models are valid, bounded, monotone variogram functions.
   Statements on the closed forms of Spec/ModelsR.v, for ALL real parameters in the admissible ranges. *)
From Coq Require Import Reals Lra Lia Psatz.
From Coquelicot Require Import Coquelicot.
From Interval Require Import Tactic.
From SG Require Import Spec.ModelsR.
Local Open Scope R_scope.

Lemma exp_le_mono x y : x <= y -> exp x <= exp y.
Proof. intros [H | ->]; [left; apply exp_increasing; exact H | right; reflexivity]. Qed.

Lemma exp_neg_le_1 t : 0 <= t -> exp (- t) <= 1.
Proof. intro H. rewrite <- exp_0. apply exp_le_mono. lra. Qed.

(* a generic "saturating" shape: b + c0 * (1 - g) with 0 <= g <= 1 *)
Lemma sat_level b c0 q g : 0 <= c0 -> q <= 1 - g -> b + q * c0 <= b + c0 * (1 - g).
Proof. intros Hc H. apply Rplus_le_compat_l. rewrite (Rmult_comm q c0). apply Rmult_le_compat_l; assumption. Qed.

Lemma sat_bounds b c0 g : 0 <= c0 -> 0 <= g -> g <= 1 -> b <= b + c0 * (1 - g) /\ b + c0 * (1 - g) <= b + c0.
Proof. intros. split; nra. Qed.
Lemma sat_mono b c0 g g' : 0 <= c0 -> g' <= g -> b + c0 * (1 - g) <= b + c0 * (1 - g').
Proof. intros. nra. Qed.

(* ---------------------------------------------------------------- spherical *)
Lemma sph_core_diff x y : sph_core y - sph_core x = (y - x) * (3 / 2 - (x * x + x * y + y * y) / 2).
Proof. unfold sph_core. field. Qed.

Lemma sph_core_mono x y : 0 <= x -> x <= y -> y <= 1 -> sph_core x <= sph_core y.
Proof.
  intros H0 Hxy H1. pose proof (sph_core_diff x y) as E.
  assert (0 <= (y - x) * (3 / 2 - (x * x + x * y + y * y) / 2)); [|lra].
  apply Rmult_le_pos; [lra|]. assert (x * x <= 1) by nra. assert (x * y <= 1) by nra. assert (y * y <= 1) by nra. lra.
Qed.

Lemma sph_core_0 : sph_core 0 = 0. Proof. unfold sph_core. field. Qed.
Lemma sph_core_1 : sph_core 1 = 1. Proof. unfold sph_core. field. Qed.

Lemma sph_core_range x : 0 <= x -> x <= 1 -> 0 <= sph_core x <= 1.
Proof.
  intros H0 H1. split.
  - rewrite <- sph_core_0. apply sph_core_mono; lra.
  - rewrite <- sph_core_1. apply sph_core_mono; lra.
Qed.

Lemma ratio_bounds h r : 0 < r -> 0 <= h -> h <= r -> 0 <= h / r <= 1.
Proof.
  intros Hr H0 H1. split.
  - apply Rmult_le_pos; [lra|]. left. apply Rinv_0_lt_compat. lra.
  - apply (Rmult_le_reg_r r); [lra|]. unfold Rdiv. rewrite Rmult_assoc, Rinv_l by lra. lra.
Qed.

Lemma ratio_mono h h' r : 0 < r -> h <= h' -> h / r <= h' / r.
Proof. intros Hr H. unfold Rdiv. apply Rmult_le_compat_r; [left; apply Rinv_0_lt_compat; lra|lra]. Qed.

Theorem spherical_at_zero r c0 b : 0 < r -> spherical_cf 0 r c0 b = b.
Proof.
  intro Hr. unfold spherical_cf. destruct (Rle_dec 0 r); [|lra].
  replace (0 / r) with 0 by (field; lra). rewrite sph_core_0. ring.
Qed.

Theorem spherical_bounds h r c0 b : 0 < r -> 0 <= c0 -> 0 <= h ->
  b <= spherical_cf h r c0 b <= b + c0.
Proof.
  intros Hr Hc Hh. unfold spherical_cf. destruct (Rle_dec h r) as [Hle|Hgt]; [|lra].
  destruct (sph_core_range (h / r)) as [A B]; try apply ratio_bounds; try lra. nra.
Qed.

Theorem spherical_mono h h' r c0 b : 0 < r -> 0 <= c0 -> 0 <= h -> h <= h' ->
  spherical_cf h r c0 b <= spherical_cf h' r c0 b.
Proof.
  intros Hr Hc Hh Hhh. unfold spherical_cf.
  destruct (Rle_dec h r) as [Hle|Hgt]; destruct (Rle_dec h' r) as [Hle'|Hgt']; try lra.
  - assert (sph_core (h / r) <= sph_core (h' / r)).
    { apply sph_core_mono; [apply ratio_bounds; lra|apply ratio_mono; lra|apply ratio_bounds; lra]. }
    nra.
  - destruct (sph_core_range (h / r)) as [A B]; try apply ratio_bounds; try lra. nra.
Qed.

Theorem spherical_range h r c0 b : 0 < r -> r <= h -> spherical_cf h r c0 b = b + c0.
Proof.
  intros Hr Hh. unfold spherical_cf. destruct (Rle_dec h r) as [Hle|Hgt]; [|reflexivity].
  assert (h = r) by lra. subst h. replace (r / r) with 1 by (field; lra). rewrite sph_core_1. ring.
Qed.

Theorem spherical_nugget h r c0 b : spherical_cf h r c0 b = spherical_cf h r c0 0 + b.
Proof. unfold spherical_cf. destruct (Rle_dec h r); ring. Qed.

(* ---------------------------------------------------------------- exponential / gaussian *)
Theorem exponential_at_zero r c0 b : 0 < r -> exponential_cf 0 r c0 b = b.
Proof. intro Hr. unfold exponential_cf. replace (3 * 0 / r) with 0 by (field; lra). rewrite Ropp_0, exp_0. ring. Qed.

Lemma arg3_nonneg h r : 0 < r -> 0 <= h -> 0 <= 3 * h / r.
Proof. intros Hr Hh. apply Rmult_le_pos; [lra|left; apply Rinv_0_lt_compat; lra]. Qed.

Theorem exponential_bounds h r c0 b : 0 < r -> 0 <= c0 -> 0 <= h -> b <= exponential_cf h r c0 b <= b + c0.
Proof.
  intros Hr Hc Hh. unfold exponential_cf. apply sat_bounds; [exact Hc|left; apply exp_pos|].
  apply exp_neg_le_1. apply arg3_nonneg; assumption.
Qed.

Theorem exponential_mono h h' r c0 b : 0 < r -> 0 <= c0 -> 0 <= h -> h <= h' ->
  exponential_cf h r c0 b <= exponential_cf h' r c0 b.
Proof.
  intros Hr Hc Hh Hhh. unfold exponential_cf. apply sat_mono; [exact Hc|]. apply exp_le_mono.
  apply Ropp_le_contravar. unfold Rdiv. apply Rmult_le_compat_r; [left; apply Rinv_0_lt_compat; lra|lra].
Qed.

Theorem exponential_range r c0 b : 0 < r -> 0 <= c0 -> b + 95 / 100 * c0 <= exponential_cf r r c0 b.
Proof.
  intros Hr Hc. unfold exponential_cf. replace (3 * r / r) with 3 by (field; lra).
  apply sat_level; [exact Hc|]. interval.
Qed.

Theorem exponential_nugget h r c0 b : exponential_cf h r c0 b = exponential_cf h r c0 0 + b.
Proof. unfold exponential_cf. ring. Qed.

Theorem gaussian_at_zero r c0 b : 0 < r -> gaussian_cf 0 r c0 b = b.
Proof. intro Hr. unfold gaussian_cf. replace (4 * 0 ^ 2 / r ^ 2) with 0 by (field; lra). rewrite Ropp_0, exp_0. ring. Qed.

Lemma arg4_nonneg h r : 0 < r -> 0 <= 4 * h ^ 2 / r ^ 2.
Proof. intros Hr. apply Rmult_le_pos; [nra|left; apply Rinv_0_lt_compat; nra]. Qed.

Theorem gaussian_bounds h r c0 b : 0 < r -> 0 <= c0 -> b <= gaussian_cf h r c0 b <= b + c0.
Proof.
  intros Hr Hc. unfold gaussian_cf. apply sat_bounds; [exact Hc|left; apply exp_pos|].
  apply exp_neg_le_1. apply arg4_nonneg; assumption.
Qed.

Theorem gaussian_mono h h' r c0 b : 0 < r -> 0 <= c0 -> 0 <= h -> h <= h' ->
  gaussian_cf h r c0 b <= gaussian_cf h' r c0 b.
Proof.
  intros Hr Hc Hh Hhh. unfold gaussian_cf. apply sat_mono; [exact Hc|]. apply exp_le_mono.
  apply Ropp_le_contravar. unfold Rdiv. apply Rmult_le_compat_r; [left; apply Rinv_0_lt_compat; nra|nra].
Qed.

Theorem gaussian_range r c0 b : 0 < r -> 0 <= c0 -> b + 95 / 100 * c0 <= gaussian_cf r r c0 b.
Proof.
  intros Hr Hc. unfold gaussian_cf. replace (4 * r ^ 2 / r ^ 2) with 4 by (field; lra).
  apply sat_level; [exact Hc|]. interval.
Qed.

Theorem gaussian_nugget h r c0 b : gaussian_cf h r c0 b = gaussian_cf h r c0 0 + b.
Proof. unfold gaussian_cf. ring. Qed.

(* ---------------------------------------------------------------- stable *)
Theorem stable_at_zero r c0 s b : stable_cf 0 r c0 s b = b.
Proof. unfold stable_cf. destruct (Req_EM_T 0 0); [reflexivity|lra]. Qed.

Lemma Rpower_nonneg x y : 0 <= Rpower x y.
Proof. unfold Rpower. left. apply exp_pos. Qed.

Theorem stable_bounds h r c0 s b : 0 <= c0 -> b <= stable_cf h r c0 s b <= b + c0.
Proof.
  intros Hc. unfold stable_cf. destruct (Req_EM_T h 0); [lra|].
  apply sat_bounds; [exact Hc|left; apply exp_pos|]. apply exp_neg_le_1.
  pose proof (Rpower_nonneg (h / r) s). lra.
Qed.

Theorem stable_mono h h' r c0 s b : 0 < r -> 0 <= c0 -> 0 < s -> 0 <= h -> h <= h' ->
  stable_cf h r c0 s b <= stable_cf h' r c0 s b.
Proof.
  intros Hr Hc Hs Hh Hhh. unfold stable_cf.
  destruct (Req_EM_T h 0) as [E|NE]; destruct (Req_EM_T h' 0) as [E'|NE']; try lra.
  - apply sat_bounds; [exact Hc|left; apply exp_pos|]. apply exp_neg_le_1. pose proof (Rpower_nonneg (h' / r) s). lra.
  - apply sat_mono; [exact Hc|]. apply exp_le_mono. apply Ropp_le_contravar.
    apply Rmult_le_compat_l; [lra|]. apply Rle_Rpower_l; [lra|]. split.
    + apply Rdiv_lt_0_compat; lra.
    + apply ratio_mono; lra.
Qed.

Theorem stable_range r c0 s b : 0 < r -> 0 <= c0 -> b + 95 / 100 * c0 <= stable_cf r r c0 s b.
Proof.
  intros Hr Hc. unfold stable_cf. destruct (Req_EM_T r 0); [lra|].
  replace (r / r) with 1 by (field; lra). unfold Rpower. rewrite ln_1, Rmult_0_r, exp_0.
  apply sat_level; [exact Hc|]. interval.
Qed.

Theorem stable_nugget h r c0 s b : stable_cf h r c0 s b = stable_cf h r c0 s 0 + b.
Proof. unfold stable_cf. destruct (Req_EM_T h 0); ring. Qed.

(* ---------------------------------------------------------------- cubic *)
Definition cub_core' (x : R) : R := x * (1 - x) ^ 3 * (21 / 4 * x ^ 2 + 63 / 4 * x + 14).

Lemma cub_core_derive x : is_derive cub_core x (cub_core' x).
Proof.
  unfold cub_core, cub_core'. auto_derive; [trivial|]. field.
Qed.

Lemma cub_core'_nonneg x : 0 <= x -> x <= 1 -> 0 <= cub_core' x.
Proof.
  intros H0 H1. unfold cub_core'. apply Rmult_le_pos; [apply Rmult_le_pos; [exact H0|apply pow_le; lra]|]. nra.
Qed.

Lemma cub_core_mono x y : 0 <= x -> x <= y -> y <= 1 -> cub_core x <= cub_core y.
Proof.
  intros H0 Hxy H1.
  destruct (MVT_gen cub_core x y cub_core') as (c & Hc & E).
  - intros z _. apply cub_core_derive.
  - intros z _. apply continuity_pt_filterlim. apply (ex_derive_continuous cub_core z).
    exists (cub_core' z). apply cub_core_derive.
  - rewrite Rmin_left, Rmax_right in Hc by lra.
    assert (0 <= cub_core' c) by (apply cub_core'_nonneg; lra).
    assert (0 <= cub_core' c * (y - x)) by (apply Rmult_le_pos; lra). lra.
Qed.

Lemma cub_core_0 : cub_core 0 = 0. Proof. unfold cub_core. field. Qed.
Lemma cub_core_1 : cub_core 1 = 1. Proof. unfold cub_core. field. Qed.

Lemma cub_core_range x : 0 <= x -> x <= 1 -> 0 <= cub_core x <= 1.
Proof.
  intros H0 H1. split.
  - rewrite <- cub_core_0. apply cub_core_mono; lra.
  - rewrite <- cub_core_1. apply cub_core_mono; lra.
Qed.

Theorem cubic_at_zero r c0 b : 0 < r -> cubic_cf 0 r c0 b = b.
Proof.
  intro Hr. unfold cubic_cf. destruct (Rlt_dec 0 r); [|lra].
  replace (0 / r) with 0 by (field; lra). rewrite cub_core_0. ring.
Qed.

Theorem cubic_bounds h r c0 b : 0 < r -> 0 <= c0 -> 0 <= h -> b <= cubic_cf h r c0 b <= b + c0.
Proof.
  intros Hr Hc Hh. unfold cubic_cf. destruct (Rlt_dec h r) as [Hlt|Hge]; [|lra].
  destruct (cub_core_range (h / r)) as [A B]; try apply ratio_bounds; try lra.
  split; [|apply Rplus_le_compat_l; rewrite <- (Rmult_1_r c0) at 2; apply Rmult_le_compat_l; assumption].
  assert (0 <= c0 * cub_core (h / r)) by (apply Rmult_le_pos; assumption). lra.
Qed.

Theorem cubic_mono h h' r c0 b : 0 < r -> 0 <= c0 -> 0 <= h -> h <= h' ->
  cubic_cf h r c0 b <= cubic_cf h' r c0 b.
Proof.
  intros Hr Hc Hh Hhh. unfold cubic_cf.
  destruct (Rlt_dec h r) as [Hlt|Hge]; destruct (Rlt_dec h' r) as [Hlt'|Hge']; try lra.
  - apply Rplus_le_compat_l. apply Rmult_le_compat_l; [exact Hc|].
    apply cub_core_mono; [apply ratio_bounds; lra|apply ratio_mono; lra|apply ratio_bounds; lra].
  - destruct (cub_core_range (h / r)) as [A B]; try apply ratio_bounds; try lra.
    apply Rplus_le_compat_l. rewrite <- (Rmult_1_r c0) at 2. apply Rmult_le_compat_l; assumption.
Qed.

Theorem cubic_range h r c0 b : 0 < r -> r <= h -> cubic_cf h r c0 b = b + c0.
Proof. intros Hr Hh. unfold cubic_cf. destruct (Rlt_dec h r); [lra|reflexivity]. Qed.

Theorem cubic_nugget h r c0 b : cubic_cf h r c0 b = cubic_cf h r c0 0 + b.
Proof. unfold cubic_cf. destruct (Rlt_dec h r); ring. Qed.

(* ---------------------------------------------------------------- limits for large lags *)
Lemma lim_const_eventually (f : R -> R) (M l : R) : (forall h, M < h -> f h = l) -> is_lim f p_infty l.
Proof.
  intro H. apply (is_lim_ext_loc (fun _ => l)).
  - exists M. intros h Hh. symmetry. apply H. exact Hh.
  - apply is_lim_const.
Qed.

Theorem spherical_limit r c0 b : 0 < r -> is_lim (fun h => spherical_cf h r c0 b) p_infty (b + c0).
Proof. intro Hr. apply (lim_const_eventually _ r). intros h Hh. apply spherical_range; lra. Qed.

Theorem cubic_limit r c0 b : 0 < r -> is_lim (fun h => cubic_cf h r c0 b) p_infty (b + c0).
Proof. intro Hr. apply (lim_const_eventually _ r). intros h Hh. apply cubic_range; lra. Qed.

Lemma lim_saturating (g : R -> R) b c0 : is_lim g p_infty 0 -> is_lim (fun h => b + c0 * (1 - g h)) p_infty (b + c0).
Proof.
  intro Hg.
  assert (H1 : is_lim (fun h => 1 - g h) p_infty (1 - 0)) by (apply is_lim_minus'; [apply is_lim_const|exact Hg]).
  assert (H2 : is_lim (fun h => c0 * (1 - g h)) p_infty (c0 * (1 - 0))).
  { exact (is_lim_scal_l (fun h => 1 - g h) c0 p_infty (Finite (1 - 0)) H1). }
  replace (b + c0) with (b + c0 * (1 - 0)) by ring.
  apply is_lim_plus'; [apply is_lim_const|exact H2].
Qed.

Lemma lim_exp_neg_lin k : 0 < k -> is_lim (fun h => exp (- (k * h))) p_infty 0.
Proof.
  intro Hk. apply (is_lim_comp exp (fun h => - (k * h)) p_infty 0 m_infty).
  - apply is_lim_exp_m.
  - replace m_infty with (Rbar_opp (Rbar_mult (Finite k) p_infty)).
    + apply is_lim_opp. apply is_lim_scal_l. apply is_lim_id.
    + cbn. destruct (Rle_dec 0 k) as [H|H]; [|lra]. destruct (Rle_lt_or_eq_dec 0 k H); [reflexivity|lra].
  - exists 0. intros; discriminate.
Qed.

Theorem exponential_limit r c0 b : 0 < r -> is_lim (fun h => exponential_cf h r c0 b) p_infty (b + c0).
Proof.
  intro Hr. unfold exponential_cf. apply (lim_saturating (fun h => exp (- (3 * h / r)))).
  apply (is_lim_ext (fun h => exp (- (3 / r * h)))).
  - intro h. f_equal. f_equal. field. lra.
  - apply lim_exp_neg_lin. apply Rdiv_lt_0_compat; lra.
Qed.

(* for h >= 1 the gaussian decay is below the exponential one *)
Theorem gaussian_limit r c0 b : 0 < r -> is_lim (fun h => gaussian_cf h r c0 b) p_infty (b + c0).
Proof.
  intro Hr. unfold gaussian_cf. apply (lim_saturating (fun h => exp (- (4 * h ^ 2 / r ^ 2)))).
  apply (is_lim_le_le_loc (fun _ => 0) (fun h => exp (- (4 / r ^ 2 * h)))).
  - exists 1. intros h Hh. split; [left; apply exp_pos|]. apply exp_le_mono. apply Ropp_le_contravar.
    assert (0 < / r ^ 2) by (apply Rinv_0_lt_compat; nra).
    unfold Rdiv. replace (4 * / r ^ 2 * h) with (4 * h * / r ^ 2) by ring.
    apply Rmult_le_compat_r; [lra|]. nra.
  - apply is_lim_const.
  - apply lim_exp_neg_lin. apply Rdiv_lt_0_compat; [lra|nra].
Qed.

(* ---------------------------------------------------------------- stable: limit *)
Lemma comp_lim_p (f g : R -> R) (l : Rbar) :
  is_lim f p_infty p_infty -> is_lim g p_infty l -> is_lim (fun h => g (f h)) p_infty l.
Proof.
  intros Hf Hg. apply (is_lim_comp g f p_infty l p_infty); [exact Hg|exact Hf|].
  exists 0. intros; discriminate.
Qed.

Lemma lim_scal_p k : 0 < k -> is_lim (fun h => k * h) p_infty p_infty.
Proof.
  intro Hk. replace p_infty with (Rbar_mult (Finite k) p_infty) at 2.
  - apply is_lim_scal_l. apply is_lim_id.
  - cbn. destruct (Rle_dec 0 k) as [H|H]; [|lra]. destruct (Rle_lt_or_eq_dec 0 k H); [reflexivity|lra].
Qed.

Lemma lim_Rpower_p r s : 0 < r -> 0 < s -> is_lim (fun h => Rpower (h / r) s) p_infty p_infty.
Proof.
  intros Hr Hs. unfold Rpower.
  apply (comp_lim_p (fun h => s * ln (h / r)) exp); [|apply is_lim_exp_p].
  apply (comp_lim_p (fun h => ln (h / r)) (fun y => s * y)); [|apply lim_scal_p; exact Hs].
  apply (comp_lim_p (fun h => h / r) ln); [|apply is_lim_ln_p].
  apply (is_lim_ext (fun h => / r * h)); [intro h; field; lra|].
  apply lim_scal_p. apply Rinv_0_lt_compat. exact Hr.
Qed.

Theorem stable_limit r c0 s b : 0 < r -> 0 < s -> is_lim (fun h => stable_cf h r c0 s b) p_infty (b + c0).
Proof.
  intros Hr Hs.
  apply (is_lim_ext_loc (fun h => b + c0 * (1 - exp (- (3 * Rpower (h / r) s))))).
  - exists 0. intros h Hh. unfold stable_cf. destruct (Req_EM_T h 0); [lra|reflexivity].
  - apply (lim_saturating (fun h => exp (- (3 * Rpower (h / r) s)))).
    apply (comp_lim_p (fun h => Rpower (h / r) s) (fun y => exp (- (3 * y)))).
    + apply lim_Rpower_p; assumption.
    + apply lim_exp_neg_lin. lra.
Qed.

(* ---------------------------------------------------------------- matern (PARTIAL: Bessel K and Gamma are parameters) *)
Section Matern.
  Variable Gamma : R -> R.
  Variable Kv : R -> R -> R.

  Theorem matern_at_zero r c0 s b : matern_cf Gamma Kv 0 r c0 s b = b.
  Proof. unfold matern_cf. destruct (Req_EM_T 0 0); [reflexivity|lra]. Qed.

  Theorem matern_nugget h r c0 s b : matern_cf Gamma Kv h r c0 s b = matern_cf Gamma Kv h r c0 s 0 + b.
  Proof. unfold matern_cf. destruct (Req_EM_T h 0); ring. Qed.

  (* the classical facts about the Matern correlation rho_s(x) = 2/Gamma(s) (x/2)^s K_s(x), as hypotheses *)
  Variable s : R.
  Hypothesis rho_range : forall x, 0 < x -> 0 <= matern_rho Gamma Kv s x <= 1.
  Hypothesis rho_decreasing : forall x y, 0 < x -> x <= y -> matern_rho Gamma Kv s y <= matern_rho Gamma Kv s x.
  Hypothesis s_pos : 0 < s.

  Lemma matern_arg_pos h r : 0 < r -> 0 < h -> 0 < 4 * h * sqrt s / r.
  Proof. intros Hr Hh. apply Rdiv_lt_0_compat; [|exact Hr]. apply Rmult_lt_0_compat; [lra|apply sqrt_lt_R0; exact s_pos]. Qed.

  Theorem matern_bounds_partial h r c0 b : 0 < r -> 0 <= c0 -> 0 <= h -> b <= matern_cf Gamma Kv h r c0 s b <= b + c0.
  Proof.
    intros Hr Hc Hh. unfold matern_cf. destruct (Req_EM_T h 0); [lra|].
    destruct (rho_range (4 * h * sqrt s / r)) as [A B]; [apply matern_arg_pos; lra|].
    apply sat_bounds; assumption.
  Qed.

  Theorem matern_mono_partial h h' r c0 b : 0 < r -> 0 <= c0 -> 0 <= h -> h <= h' ->
    matern_cf Gamma Kv h r c0 s b <= matern_cf Gamma Kv h' r c0 s b.
  Proof.
    intros Hr Hc Hh Hhh. unfold matern_cf.
    destruct (Req_EM_T h 0) as [E|NE]; destruct (Req_EM_T h' 0) as [E'|NE']; try lra.
    - destruct (rho_range (4 * h' * sqrt s / r)) as [A B]; [apply matern_arg_pos; lra|].
      apply sat_bounds; assumption.
    - apply sat_mono; [exact Hc|]. apply rho_decreasing; [apply matern_arg_pos; lra|].
      unfold Rdiv. apply Rmult_le_compat_r; [left; apply Rinv_0_lt_compat; exact Hr|].
      apply Rmult_le_compat_r; [apply sqrt_pos|lra].
  Qed.

  Hypothesis rho_vanishes : is_lim (matern_rho Gamma Kv s) p_infty 0.

  Theorem matern_limit_partial r c0 b : 0 < r -> is_lim (fun h => matern_cf Gamma Kv h r c0 s b) p_infty (b + c0).
  Proof.
    intros Hr.
    apply (is_lim_ext_loc (fun h => b + c0 * (1 - matern_rho Gamma Kv s (4 * h * sqrt s / r)))).
    - exists 0. intros h Hh. unfold matern_cf. destruct (Req_EM_T h 0); [lra|reflexivity].
    - apply (lim_saturating (fun h => matern_rho Gamma Kv s (4 * h * sqrt s / r))).
      apply (comp_lim_p (fun h => 4 * h * sqrt s / r) (matern_rho Gamma Kv s)); [|exact rho_vanishes].
      apply (is_lim_ext (fun h => (4 * sqrt s / r) * h)); [intro h; field; lra|].
      apply lim_scal_p. apply Rdiv_lt_0_compat; [|exact Hr]. apply Rmult_lt_0_compat; [lra|apply sqrt_lt_R0; exact s_pos].
  Qed.
End Matern.
