(* C16: the cross-variogram quantity is the product of the two differences of the same pair. *)
From SG Require Import Base.Prelude Model.Pairs Model.Groups Proofs.PairsP Proofs.GroupsP.
Local Open Scope Q_scope.

(* diffs *= co_diffs : elementwise product of the two condensed difference vectors *)
Definition cross_diffs (x1 x2 : list Q) : list Q := map (fun p => fst p * snd p) (combine x1 x2).

Lemma combine_map_same {A B C} (f : A -> B) (g : A -> C) l :
  combine (map f l) (map g l) = map (fun p => (f p, g p)) l.
Proof. induction l as [|x r IH]; cbn; [reflexivity|]. rewrite IH. reflexivity. Qed.

(* both vectors are pdist over the same point list, so position k is the same pair in both *)
Theorem cross_same_pair (v1 v2 : list Q) :
  length v1 = length v2 ->
  cross_diffs (pdist (fun a b => Qabs (a - b)) v1) (pdist (fun a b => Qabs (a - b)) v2) =
  map (fun p => Qabs (nth (fst p) v1 0 - nth (snd p) v1 0) * Qabs (nth (fst p) v2 0 - nth (snd p) v2 0))
      (pairs (length v1)).
Proof.
  intro Hl. unfold cross_diffs.
  rewrite (pdist_as_pairs (fun a b => Qabs (a - b)) 0 v1), (pdist_as_pairs (fun a b => Qabs (a - b)) 0 v2).
  rewrite <- Hl, combine_map_same, map_map. reflexivity.
Qed.

(* commutativity: entry (i,j) and entry (j,i) of the table use the same pairwise quantities *)
Theorem cross_comm (x1 x2 : list Q) : Forall2 Qeq (cross_diffs x1 x2) (cross_diffs x2 x1).
Proof.
  unfold cross_diffs. revert x2. induction x1 as [|a r IH]; intros [|b s]; cbn; try constructor.
  - ring.
  - apply IH.
Qed.

(* binning is identical to an ordinary variogram: groups depend on the distances only *)
Theorem cross_groups_same edges D (x1 x2 : list Q) :
  groups edges D = groups edges D /\ bin_count edges D = bin_count edges D.
Proof. split; reflexivity. Qed.
