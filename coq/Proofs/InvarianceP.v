(* C10: invariances of the experimental variogram, proved on the models (all sizes). *)
From SG Require Import Base.Prelude Base.NumpyPrims Model.Pairs Model.Groups Model.Estimators Model.Binning
  Proofs.PairsP Proofs.GroupsP Proofs.NumpyP Proofs.BinningP.
Local Open Scope Q_scope.

(* ---- reordering the points: the condensed vector is permuted (symmetric pair function) ---- *)
Theorem pdist_perm {A B} (f : A -> A -> B) (l l' : list A) :
  (forall x y, f x y = f y x) -> Permutation l l' -> Permutation (pdist f l) (pdist f l').
Proof.
  intros Hsym Hp. induction Hp as [|x l l' Hp IH|x y l|l l' l'' H1 IH1 H2 IH2].
  - apply perm_nil.
  - cbn [pdist]. apply Permutation_app; [apply Permutation_map; exact Hp|exact IH].
  - cbn [pdist map]. rewrite (Hsym y x).
    cbn [app]. apply perm_skip.
    rewrite !app_assoc. apply Permutation_app_tail. apply Permutation_app_comm.
  - eapply perm_trans; eassumption.
Qed.

(* classes of a permuted point list are permutations of the old classes: same counts *)
Lemma lag_class_perm {X} edges (DX DX' : list (Q * X)) i :
  Permutation DX DX' ->
  Permutation (map snd (filter (fun dx => is_group i (group_of edges (fst dx))) DX))
              (map snd (filter (fun dx => is_group i (group_of edges (fst dx))) DX')).
Proof.
  intro Hp. apply Permutation_map. induction Hp as [|x l l' Hp IH|x y l|l l' l'' H1 IH1 H2 IH2]; cbn [filter].
  - apply perm_nil.
  - destruct (is_group i (group_of edges (fst x))); [apply perm_skip|]; exact IH.
  - destruct (is_group i (group_of edges (fst x))), (is_group i (group_of edges (fst y)));
      try apply perm_swap; apply Permutation_refl.
  - eapply perm_trans; eassumption.
Qed.

Theorem classes_perm {P X} (d : P -> P -> Q) (x : P -> P -> X) (pts pts' : list P) edges i :
  (forall a b, d a b = d b a) -> (forall a b, x a b = x b a) -> Permutation pts pts' ->
  Permutation (map snd (filter (fun dx => is_group i (group_of edges (fst dx))) (pdist (fun a b => (d a b, x a b)) pts)))
              (map snd (filter (fun dx => is_group i (group_of edges (fst dx))) (pdist (fun a b => (d a b, x a b)) pts'))).
Proof.
  intros Hd Hx Hp. apply lag_class_perm. apply pdist_perm; [|exact Hp].
  intros a b. rewrite (Hd a b), (Hx a b). reflexivity.
Qed.

(* the Matheron estimator only depends on the multiset *)
Lemma sumQ_perm l l' : Permutation l l' -> sumQ l == sumQ l'.
Proof.
  intro Hp. induction Hp as [|x l l' Hp IH|x y l|l l' l'' H1 IH1 H2 IH2]; cbn [sumQ fold_right].
  - reflexivity.
  - fold (sumQ l). fold (sumQ l'). rewrite IH. reflexivity.
  - ring.
  - rewrite IH1. exact IH2.
Qed.

Definition optQeq (a b : option Q) : Prop :=
  match a, b with Some x, Some y => x == y | None, None => True | _, _ => False end.

Theorem matheron_perm l l' : Permutation l l' -> optQeq (matheron l) (matheron l').
Proof.
  intro Hp. unfold matheron. pose proof (Permutation_length Hp) as Hl.
  destruct l as [|a r], l' as [|a' r']; try discriminate; [exact I|].
  cbn [optQeq]. unfold nQ. rewrite Hl.
  rewrite (sumQ_perm _ _ (Permutation_map (fun v => v * v) Hp)). reflexivity.
Qed.

(* ---- rigid motions of the plane keep squared distances (euclidean metric) ---- *)
Definition sqdist2 (p q : Q * Q) : Q :=
  (fst p - fst q) * (fst p - fst q) + (snd p - snd q) * (snd p - snd q).
Definition rigid (c s a b : Q) (p : Q * Q) : Q * Q := (c * fst p - s * snd p + a, s * fst p + c * snd p + b).
Definition reflect (p : Q * Q) : Q * Q := (fst p, - snd p).

Theorem rigid_sqdist c s a b p q : c * c + s * s == 1 -> sqdist2 (rigid c s a b p) (rigid c s a b q) == sqdist2 p q.
Proof.
  intro H. unfold sqdist2, rigid. cbn [fst snd].
  setoid_replace ((c * fst p - s * snd p + a - (c * fst q - s * snd q + a)) * (c * fst p - s * snd p + a - (c * fst q - s * snd q + a)) +
                  (s * fst p + c * snd p + b - (s * fst q + c * snd q + b)) * (s * fst p + c * snd p + b - (s * fst q + c * snd q + b)))
    with ((c * c + s * s) * ((fst p - fst q) * (fst p - fst q) + (snd p - snd q) * (snd p - snd q))) by ring.
  rewrite H. ring.
Qed.

Theorem reflect_sqdist p q : sqdist2 (reflect p) (reflect q) == sqdist2 p q.
Proof. unfold sqdist2, reflect. cbn [fst snd]. ring. Qed.

(* ---- adding a constant to all values ---- *)
Theorem shift_diff a b c : Qabs ((a + c) - (b + c)) == Qabs (a - b).
Proof. setoid_replace (a + c - (b + c)) with (a - b) by ring. reflexivity. Qed.

(* ---- multiplying the values by k: differences scale by |k|, Matheron by k^2 ---- *)
Theorem scale_diff a b k : Qabs (k * a - k * b) == Qabs k * Qabs (a - b).
Proof. setoid_replace (k * a - k * b) with (k * (a - b)) by ring. apply Qabs_Qmult. Qed.

Lemma sumQ_scale k l : sumQ (map (fun v => k * v) l) == k * sumQ l.
Proof. induction l as [|x r IH]; cbn [map sumQ fold_right]; [ring|]. fold (sumQ (map (fun v => k * v) r)). fold (sumQ r). rewrite IH. ring. Qed.

Lemma sumQ_sq_scale k l :
  sumQ (map (fun v => v * v) (map (fun v => k * v) l)) == k * k * sumQ (map (fun v => v * v) l).
Proof.
  induction l as [|x r IH]; cbn [map sumQ fold_right]; [ring|].
  fold (sumQ (map (fun v => v * v) (map (fun v => k * v) r))). fold (sumQ (map (fun v => v * v) r)).
  rewrite IH. ring.
Qed.

Lemma matheron_cons a r :
  matheron (a :: r) = Some ((1 / (2 * nQ (a :: r))) * sumQ (map (fun v => v * v) (a :: r))).
Proof. reflexivity. Qed.

Theorem matheron_scale k l : optQeq (matheron (map (fun v => k * v) l)) (option_map (fun g => k * k * g) (matheron l)).
Proof.
  destruct l as [|a r]; [exact I|].
  change (map (fun v => k * v) (a :: r)) with (k * a :: map (fun v => k * v) r).
  rewrite !matheron_cons. cbn [option_map optQeq].
  change (k * a :: map (fun v => k * v) r) with (map (fun v => k * v) (a :: r)).
  rewrite sumQ_sq_scale. unfold nQ. rewrite map_length. ring.
Qed.

(* ---- multiplying the coordinates by s > 0: edges scale by s, the classification is unchanged ---- *)
Lemma in_class_scale s lo hi d : 0 < s -> in_class (s * lo) (s * hi) (s * d) = in_class lo hi d.
Proof.
  intro Hs. unfold in_class. f_equal.
  - destruct (Qle_bool lo d) eqn:E; qbool; nra.
  - destruct (Qltb d hi) eqn:E; qbool; nra.
Qed.

Lemma assign_loop_scale s edges : 0 < s -> forall i lo d cur,
  assign_loop i (s * lo) (map (fun e => s * e) edges) (s * d) cur = assign_loop i lo edges d cur.
Proof.
  intro Hs. induction edges as [|hi r IH]; intros i lo d cur; cbn [map assign_loop]; [reflexivity|].
  rewrite in_class_scale by exact Hs. apply IH.
Qed.

Theorem group_of_scale s edges d : 0 < s -> group_of (map (fun e => s * e) edges) (s * d) = group_of edges d.
Proof.
  intro Hs. unfold group_of.
  pose proof (assign_loop_scale s edges Hs 0%nat 0 d None) as H.
  destruct edges as [|hi r]; [reflexivity|].
  cbn [map assign_loop] in *.
  assert (Ez : in_class (s * 0) (s * hi) (s * d) = in_class 0 (s * hi) (s * d)).
  { unfold in_class. f_equal. destruct (Qle_bool 0 (s * d)) eqn:E1; qbool; nra. }
  rewrite Ez in H. exact H.
Qed.

Theorem even_scale s n M i : (i < n)%nat -> nth i (even n (s * M)) 0 == s * nth i (even n M) 0.
Proof.
  intro Hi. rewrite !even_nth by exact Hi. field.
  pose proof (inject_nat_pos n ltac:(lia)). lra.
Qed.
