(* Bridge lemmas: the definitions generated from models.py equal the hand-written closed forms.
   A harmless rewrite of the source (reordering, r/1. -> r, <= vs < where both branches agree) keeps
   these provable by the same tactic; a changed constant, exponent or branch does not. *)
From Coq Require Import Reals Lra Lia.
From Coquelicot Require Import Coquelicot.
From SG Require Import Gen.Models Spec.ModelsR.
Local Open Scope R_scope.

Ltac split_decs :=
  repeat match goal with
  | |- context [Rle_dec ?a ?b] => destruct (Rle_dec a b)
  | |- context [Rlt_dec ?a ?b] => destruct (Rlt_dec a b)
  | |- context [Rge_dec ?a ?b] => destruct (Rge_dec a b)
  | |- context [Rgt_dec ?a ?b] => destruct (Rgt_dec a b)
  | |- context [Req_EM_T ?a ?b] => destruct (Req_EM_T a b)
  end.

(* boundary case of a flipped comparison: the two sides are then equal as numbers *)
Ltac boundary h r :=
  let E := fresh "E" in assert (E : h = r) by lra; subst h.

Ltac bridge h r :=
  intros; cbv zeta; split_decs; try (exfalso; lra);
  first [ reflexivity | field; lra | boundary h r; (field; lra) | boundary h r; lra ].

Lemma spherical_bridge h r c0 b : 0 < r -> spherical h r c0 b = spherical_cf h r c0 b.
Proof. unfold spherical, spherical_cf, sph_core. bridge h r. Qed.

Lemma exponential_bridge h r c0 b : 0 < r -> exponential h r c0 b = exponential_cf h r c0 b.
Proof.
  intros Hr. unfold exponential, exponential_cf. cbv zeta. do 4 f_equal. field. lra.
Qed.

Lemma gaussian_bridge h r c0 b : 0 < r -> gaussian h r c0 b = gaussian_cf h r c0 b.
Proof.
  intros Hr. unfold gaussian, gaussian_cf. cbv zeta. do 4 f_equal. field. lra.
Qed.

Lemma cubic_bridge h r c0 b : 0 < r -> cubic h r c0 b = cubic_cf h r c0 b.
Proof. unfold cubic, cubic_cf, cub_core. bridge h r. Qed.

Lemma Rpower_3_inv_s s : 0 < s -> Rpower (Rpower 3 (1 / s)) s = 3.
Proof.
  intro Hs. rewrite Rpower_mult. replace (1 / s * s) with 1 by (field; lra). apply Rpower_1. lra.
Qed.

Lemma stable_bridge h r c0 s b : 0 < r -> 0 < s -> 0 <= h -> stable h r c0 s b = stable_cf h r c0 s b.
Proof.
  intros Hr Hs Hh. unfold stable, stable_cf. cbv zeta. destruct (Req_EM_T h 0) as [E|NE]; [reflexivity|].
  do 5 f_equal.
  assert (Hp : 0 < Rpower 3 (1 / s)) by (unfold Rpower; apply exp_pos).
  assert (Hh' : 0 < h) by lra.
  replace (h / (r / Rpower 3 (1 / s))) with ((h / r) * Rpower 3 (1 / s)) by (field; split; lra).
  rewrite <- Rpower_mult_distr; [|apply Rdiv_lt_0_compat; lra|exact Hp].
  rewrite Rpower_3_inv_s by exact Hs. ring.
Qed.

Lemma matern_bridge Gamma Kv h r c0 s b : 0 < r -> matern Gamma Kv h r c0 s b = matern_cf Gamma Kv h r c0 s b.
Proof.
  intros Hr. unfold matern, matern_cf, matern_rho. cbv zeta. destruct (Req_EM_T h 0); [reflexivity|].
  replace (4 * h * sqrt s / r / 2) with (h * sqrt s / (r / 2)) by (field; lra).
  replace (2 * (h * sqrt s / (r / 2))) with (4 * h * sqrt s / r) by (field; lra).
  reflexivity.
Qed.
