(* The overwrite loop of Variogram._calc_groups equals the half-open-interval specification
   for every non-decreasing edge list (zero-width classes allowed).  All lengths, all d. *)
From SG Require Import Base.Prelude Model.Pairs Model.Groups Proofs.PairsP.
Local Open Scope Q_scope.

(* lo <= e0 <= e1 <= ... *)
Fixpoint chain (lo : Q) (edges : list Q) : Prop :=
  match edges with
  | [] => True
  | hi :: r => lo <= hi /\ chain hi r
  end.

(* first class whose upper edge lies above d *)
Fixpoint first_above (i : nat) (edges : list Q) (d : Q) : option nat :=
  match edges with
  | [] => None
  | hi :: rest => if Qltb d hi then Some i else first_above (S i) rest d
  end.

Lemma assign_below i lo edges d cur :
  chain lo edges -> d < lo -> assign_loop i lo edges d cur = cur.
Proof.
  revert i lo cur. induction edges as [|hi r IH]; intros i lo cur Hc Hd; cbn [assign_loop]; [reflexivity|].
  destruct Hc as [H1 H2].
  unfold in_class. replace (Qle_bool lo d) with false by (symmetry; qbool; exact Hd).
  cbn [andb]. apply IH; [exact H2|lra].
Qed.

Lemma assign_first i lo edges d cur :
  chain lo edges -> lo <= d ->
  assign_loop i lo edges d cur =
    match first_above i edges d with Some k => Some k | None => cur end.
Proof.
  revert i lo cur. induction edges as [|hi r IH]; intros i lo cur Hc Hd;
    cbn [assign_loop first_above]; [reflexivity|].
  destruct Hc as [H1 H2]. unfold in_class.
  replace (Qle_bool lo d) with true by (symmetry; qbool; exact Hd). cbn [andb].
  destruct (Qltb d hi) eqn:E; qbool.
  - apply assign_below; assumption.
  - apply IH; assumption.
Qed.

Lemma first_above_iff edges : forall k d i,
  first_above k edges d = Some i <->
  exists j, i = (k + j)%nat /\ (j < length edges)%nat /\ d < nth j edges 0 /\
            forall t, (t < j)%nat -> nth t edges 0 <= d.
Proof.
  induction edges as [|hi r IH]; intros k d i; cbn [first_above].
  - split; [discriminate|]. intros (j & _ & H & _). cbn in H. lia.
  - destruct (Qltb d hi) eqn:E; qbool.
    + split.
      * intro H. inv H. exists 0%nat. cbn [nth length]. repeat split; try lia; try assumption.
      * intros (j & -> & Hj & Hd & Hall). destruct j as [|j]; [f_equal; lia|].
        exfalso. specialize (Hall 0%nat ltac:(lia)). cbn [nth] in Hall. lra.
    + rewrite IH. split.
      * intros (j & -> & Hj & Hd & Hall). exists (S j). cbn [nth length]. repeat split; try lia; try assumption.
        intros t Ht. destruct t as [|t]; [exact E|]. apply Hall. lia.
      * intros (j & -> & Hj & Hd & Hall). destruct j as [|j]; [cbn [nth] in Hd; lra|].
        exists j. cbn [nth length] in *. repeat split; try lia; try assumption.
        intros t Ht. apply (Hall (S t)). lia.
Qed.

Lemma chain_nth lo edges : chain lo edges ->
  forall a b, (a <= b)%nat -> (b <= length edges)%nat -> nth a (lo :: edges) 0 <= nth b (lo :: edges) 0.
Proof.
  revert lo. induction edges as [|hi r IH]; intros lo Hc a b Hab Hb.
  - cbn [length] in Hb. assert (a = 0%nat) by lia. assert (b = 0%nat) by lia. subst. cbn. lra.
  - destruct Hc as [H1 H2]. destruct a as [|a].
    + destruct b as [|b]; [cbn; lra|].
      change (nth 0 (lo :: hi :: r) 0) with lo. change (nth (S b) (lo :: hi :: r) 0) with (nth b (hi :: r) 0).
      specialize (IH hi H2 0%nat b ltac:(lia) ltac:(cbn [length] in Hb; lia)). change (nth 0 (hi :: r) 0) with hi in IH. lra.
    + destruct b as [|b]; [lia|].
      change (nth (S a) (lo :: hi :: r) 0) with (nth a (hi :: r) 0).
      change (nth (S b) (lo :: hi :: r) 0) with (nth b (hi :: r) 0).
      apply IH; [exact H2|lia|cbn [length] in Hb; lia].
Qed.

Lemma in_class_true lo hi d : in_class lo hi d = true <-> lo <= d /\ d < hi.
Proof.
  unfold in_class. rewrite andb_true_iff, Qle_bool_iff, Qltb_lt. reflexivity.
Qed.

(* --- main specification of the group assignment --- *)
Theorem group_of_spec edges d i :
  chain 0 edges ->
  (group_of edges d = Some i <-> in_class_i edges i d = true).
Proof.
  intro Hc. unfold group_of, in_class_i.
  rewrite andb_true_iff, Nat.ltb_lt, in_class_true. unfold lower, upper.
  destruct (Qlt_le_dec d 0) as [Hneg|Hpos].
  - rewrite assign_below by assumption. split; [discriminate|].
    intros (Hi & Hlo & _). exfalso.
    pose proof (chain_nth 0 edges Hc 0%nat i ltac:(lia) ltac:(lia)) as H. change (nth 0 (0 :: edges) 0) with 0 in H. lra.
  - rewrite assign_first by assumption.
    destruct (first_above 0 edges d) as [k|] eqn:E.
    + apply first_above_iff in E. destruct E as (j & -> & Hj & Hd & Hall). cbn [Nat.add].
      split.
      * intro H. inv H. repeat split; try assumption.
        destruct i as [|i]; [exact Hpos|]. cbn [nth]. apply Hall. lia.
      * intros (Hi & Hlo & Hhi). f_equal.
        destruct (Nat.lt_trichotomy i j) as [Hlt|[Heq|Hgt]]; [|symmetry; exact Heq|]; exfalso.
        -- specialize (Hall i Hlt). lra.
        -- pose proof (chain_nth 0 edges Hc (S j) i ltac:(lia) ltac:(lia)) as H.
           change (nth (S j) (0 :: edges) 0) with (nth j edges 0) in H. lra.
    + split; [discriminate|]. intros (Hi & Hlo & Hhi). exfalso.
      assert (Hex : exists k, first_above 0 edges d = Some k).
      { exists i. apply first_above_iff. exists i. repeat split; try assumption.
        intros t Ht.
        pose proof (chain_nth 0 edges Hc (S t) i ltac:(lia) ltac:(lia)) as H.
        change (nth (S t) (0 :: edges) 0) with (nth t edges 0) in H. lra. }
      destruct Hex as [k Hk]. congruence.
Qed.

Corollary in_class_i_unique edges d i j :
  chain 0 edges -> in_class_i edges i d = true -> in_class_i edges j d = true -> i = j.
Proof.
  intros Hc Hi Hj. apply (group_of_spec edges d i Hc) in Hi. apply (group_of_spec edges d j Hc) in Hj.
  congruence.
Qed.

Lemma first_above_exists edges : forall k d, 0 <= d -> d < last edges 0 ->
  exists i, first_above k edges d = Some i.
Proof.
  induction edges as [|hi r IH]; intros k d H0 Hd; [cbn in Hd; lra|].
  cbn [first_above]. destruct (Qltb d hi) eqn:E; [eexists; reflexivity|]. qbool.
  destruct r as [|hi2 r']; [cbn in Hd; lra|]. apply IH; [exact H0|exact Hd].
Qed.

Lemma last_cons {A} (x : A) r d : last (x :: r) d = last r x.
Proof.
  revert x d. induction r as [|y r IH]; intros x d; [reflexivity|].
  change (last (x :: y :: r) d) with (last (y :: r) d). rewrite IH. symmetry. apply IH.
Qed.

Lemma chain_last lo edges : chain lo edges -> lo <= last edges lo.
Proof.
  revert lo. induction edges as [|hi r IH]; intros lo Hc; [cbn; lra|].
  destruct Hc as [H1 H2]. rewrite last_cons. specialize (IH hi H2). lra.
Qed.

Lemma first_above_none lo edges : forall k d, chain lo edges -> last edges lo <= d ->
  first_above k edges d = None.
Proof.
  revert lo. induction edges as [|hi r IH]; intros lo k d Hc Hd; [reflexivity|].
  destruct Hc as [H1 H2]. rewrite last_cons in Hd. cbn [first_above].
  pose proof (chain_last hi r H2) as Hl.
  replace (Qltb d hi) with false by (symmetry; qbool; lra).
  apply (IH hi); assumption.
Qed.

(* every distance below the last edge gets exactly one class (uniqueness: group_of is a function
   and group_of_spec); every distance at or beyond the last edge gets none *)
Theorem group_of_partition edges d :
  chain 0 edges -> 0 <= d ->
  (d < last edges 0 -> exists i, group_of edges d = Some i /\ in_class_i edges i d = true) /\
  (last edges 0 <= d -> group_of edges d = None /\ forall i, in_class_i edges i d = false).
Proof.
  intros Hc H0. split; intro Hd.
  - destruct (first_above_exists edges 0%nat d H0 Hd) as [i Hi].
    assert (G : group_of edges d = Some i).
    { unfold group_of. rewrite assign_first by assumption. rewrite Hi. reflexivity. }
    exists i. split; [exact G|]. apply group_of_spec; assumption.
  - assert (G : group_of edges d = None).
    { unfold group_of. rewrite assign_first by assumption.
      rewrite (first_above_none 0 edges 0%nat d Hc Hd). reflexivity. }
    split; [exact G|]. intro i. destruct (in_class_i edges i d) eqn:E; [|reflexivity].
    apply group_of_spec in E; [congruence|exact Hc].
Qed.

Lemma is_group_in_class edges d i :
  chain 0 edges -> is_group i (group_of edges d) = in_class_i edges i d.
Proof.
  intro Hc. destruct (in_class_i edges i d) eqn:E.
  - apply group_of_spec in E; [|exact Hc]. rewrite E. cbn. apply Nat.eqb_refl.
  - destruct (group_of edges d) as [j|] eqn:G; [|reflexivity]. cbn.
    destruct (Nat.eqb i j) eqn:Eij; [|reflexivity]. apply Nat.eqb_eq in Eij. subst j.
    apply group_of_spec in G; [congruence|exact Hc].
Qed.

(* ---- classes as images of the pair list ---- *)
Lemma lag_class_map {P X} (f : P -> Q) (g : P -> X) (l : list P) edges i :
  lag_class edges (map f l) (map g l) i =
  map g (filter (fun p => is_group i (group_of edges (f p))) l).
Proof.
  unfold lag_class. induction l as [|p l IH]; [reflexivity|].
  cbn [map combine filter fst]. destruct (is_group i (group_of edges (f p))); cbn [map snd]; rewrite IH; reflexivity.
Qed.

(* C01: lag class i of n points = |dv| over exactly the pairs (a,b), a<b, whose distance lies in
   [edge[i-1], edge[i]), in condensed order *)
Theorem lag_class_pairs {X} (n : nat) (dfun : nat * nat -> Q) (xfun : nat * nat -> X) edges i :
  chain 0 edges ->
  lag_class edges (map dfun (pairs n)) (map xfun (pairs n)) i =
  map xfun (filter (fun p => in_class_i edges i (dfun p)) (pairs n)).
Proof.
  intro Hc. rewrite lag_class_map. f_equal. apply filter_ext. intro p. apply is_group_in_class. exact Hc.
Qed.

(* the k-th distance and the k-th difference belong to the same pair *)
Theorem aligned {X} (n : nat) (dfun : nat * nat -> Q) (xfun : nat * nat -> X) k :
  nth_error (map dfun (pairs n)) k = option_map dfun (nth_error (pairs n) k) /\
  nth_error (map xfun (pairs n)) k = option_map xfun (nth_error (pairs n) k).
Proof. split; apply nth_error_map. Qed.

(* ---- index lists (np.where) versus filtered classes ---- *)
Lemma positions_from_length {A} (p : A -> bool) l : forall k,
  length (positions_from p k l) = length (filter p l).
Proof.
  induction l as [|x r IH]; intro k; cbn [positions_from filter]; [reflexivity|].
  destruct (p x); cbn [length]; rewrite IH; reflexivity.
Qed.

Lemma take_at_positions {A X} (p : A -> bool) (l : list A) : forall (xs pre : list X),
  length l = length xs ->
  take_at (pre ++ xs) (positions_from p (length pre) l) =
  map snd (filter (fun ax => p (fst ax)) (combine l xs)).
Proof.
  induction l as [|a l IH]; intros xs pre Hl; [reflexivity|].
  destruct xs as [|x xs]; [discriminate|]. cbn [positions_from combine filter fst].
  assert (E : pre ++ x :: xs = (pre ++ [x]) ++ xs) by (rewrite <- app_assoc; reflexivity).
  assert (El : S (length pre) = length (pre ++ [x])) by (rewrite app_length; cbn; lia).
  destruct (p a).
  - cbn [take_at map snd]. rewrite nth_error_app2, Nat.sub_diag by lia. cbn [nth_error]. f_equal.
    rewrite E, El. apply IH. cbn in Hl. lia.
  - rewrite E, El. apply IH. cbn in Hl. lia.
Qed.

Lemma filter_combine_map {A B X} (f : A -> B) (p : B -> bool) (D : list A) : forall (xs : list X),
  map snd (filter (fun ax => p (fst ax)) (combine (map f D) xs)) =
  map snd (filter (fun dx => p (f (fst dx))) (combine D xs)).
Proof.
  induction D as [|d D IH]; intros xs; [reflexivity|].
  destruct xs as [|x xs]; [reflexivity|]. cbn [map combine filter fst].
  destruct (p (f d)); cbn [map snd]; rewrite IH; reflexivity.
Qed.

Theorem lag_class_take_at {X} edges (D : list Q) (xs : list X) i :
  length D = length xs ->
  lag_class edges D xs i = take_at xs (class_positions edges D i).
Proof.
  intro Hl. unfold class_positions, positions, groups, lag_class.
  pose proof (take_at_positions (is_group i) (map (group_of edges) D) xs []) as T.
  cbn [app length] in T. rewrite T by (rewrite map_length; exact Hl). clear T.
  symmetry. apply filter_combine_map.
Qed.

Theorem bin_count_spec {X} edges (D : list Q) (xs : list X) i :
  length D = length xs -> (i < length edges)%nat ->
  nth i (bin_count edges D) 0%nat = length (lag_class edges D xs i).
Proof.
  intros Hl Hi. unfold bin_count.
  rewrite (nth_indep _ 0%nat (length (class_positions edges D (length edges)))) by (rewrite map_length, seq_length; exact Hi).
  rewrite (map_nth (fun i => length (class_positions edges D i))).
  rewrite seq_nth by exact Hi. cbn [Nat.add].
  unfold class_positions, positions. rewrite positions_from_length.
  unfold lag_class, groups. rewrite map_length. clear Hi.
  revert xs Hl. induction D as [|d D IH]; intros xs Hl; [reflexivity|].
  destruct xs as [|x xs]; [discriminate|]. cbn [map combine filter fst].
  destruct (is_group i (group_of edges d)); cbn [length]; rewrite (IH xs) by (cbn in Hl; lia); reflexivity.
Qed.

(* ---- the counts add up to the number of pairs below the last edge ---- *)
Lemma indicator_sum (g : option nat) m :
  list_sum (map (fun i => if is_group i g then 1 else 0)%nat (seq 0 m)) =
  match g with Some j => if (j <? m)%nat then 1%nat else 0%nat | None => 0%nat end.
Proof.
  induction m as [|m IH]; [destruct g; reflexivity|].
  rewrite seq_S, map_app, list_sum_app, IH. cbn [Nat.add map list_sum].
  destruct g as [j|]; cbn [is_group]; [|reflexivity].
  destruct (Nat.eqb_spec m j) as [->|Hne].
  - replace (j <? j)%nat with false by (symmetry; apply Nat.ltb_ge; lia).
    replace (j <? S j)%nat with true by (symmetry; apply Nat.ltb_lt; lia). reflexivity.
  - destruct (Nat.ltb_spec j m); destruct (Nat.ltb_spec j (S m)); cbn [list_sum fold_right]; lia.
Qed.

Lemma list_sum_map_add (f g : nat -> nat) l :
  list_sum (map (fun i => f i + g i)%nat l) = (list_sum (map f l) + list_sum (map g l))%nat.
Proof. induction l as [|x l IH]; [reflexivity|]. rewrite !map_cons. unfold list_sum in *. cbn [fold_right]. lia. Qed.

Lemma count_sum (G : list (option nat)) m :
  list_sum (map (fun i => length (filter (is_group i) G)) (seq 0 m)) =
  length (filter (fun g => match g with Some j => (j <? m)%nat | None => false end) G).
Proof.
  induction G as [|g G IH].
  - cbn [filter length]. induction (seq 0 m); [reflexivity|cbn; assumption].
  - rewrite (map_ext _ (fun i => (if is_group i g then 1 else 0) + length (filter (is_group i) G))%nat).
    2:{ intro i. cbn [filter]. destruct (is_group i g); reflexivity. }
    rewrite list_sum_map_add, IH, indicator_sum. cbn [filter].
    destruct g as [j|]; [|reflexivity]. destruct (j <? m)%nat; reflexivity.
Qed.

Theorem bin_count_total edges (D : list Q) :
  chain 0 edges -> Forall (fun d => 0 <= d) D ->
  list_sum (bin_count edges D) = length (filter (fun d => Qltb d (last edges 0)) D).
Proof.
  intros Hc Hpos. unfold bin_count, class_positions, positions.
  erewrite map_ext by (intro i; apply positions_from_length).
  rewrite count_sum. unfold groups.
  induction D as [|d D IH]; [reflexivity|].
  inv Hpos. cbn [map filter].
  destruct (group_of_partition edges d Hc H1) as [Hin Hout].
  destruct (Qltb d (last edges 0)) eqn:E; qbool.
  - destruct (Hin E) as (i & Hg & Hci). rewrite Hg.
    unfold in_class_i in Hci. apply andb_true_iff in Hci. destruct Hci as [Hlt _]. rewrite Hlt.
    cbn [length]. rewrite IH by assumption. reflexivity.
  - destruct (Hout E) as [Hg _]. rewrite Hg. apply IH. assumption.
Qed.

(* the experimental variogram is the estimator mapped over the classes; empty class -> est [] *)
Theorem experimental_nth {X Y} (est : list X -> option Y) edges D xs i :
  (i < length edges)%nat ->
  nth i (experimental est edges D xs) None = est (lag_class edges D xs i).
Proof.
  intro Hi. unfold experimental, lag_classes. rewrite map_map.
  rewrite (nth_indep _ None (est (lag_class edges D xs (length edges)))) by (rewrite map_length, seq_length; exact Hi).
  rewrite (map_nth (fun i => est (lag_class edges D xs i))). rewrite seq_nth by exact Hi. reflexivity.
Qed.
