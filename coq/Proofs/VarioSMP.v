(* C06: every cached quantity is either absent or computed from the CURRENT settings, after any
   sequence of setter assignments and reads; hence every read equals that of a fresh instance. *)
From SG Require Import Base.Prelude Model.VarioSM.

Definition opt_is {A} (x : A) (o : option A) : Prop := o = None \/ o = Some x.

Definition valid (s : settings) (c : caches) : Prop :=
  opt_is (bins_key s) (c_bins c) /\ opt_is (groups_key s) (c_groups c) /\ opt_is (groups_key s) (c_count c) /\
  opt_is (diff_key s) (c_diff c) /\ opt_is (cof_key s) (c_cof c) /\
  (* groups are only ever computed together with the bins they were computed from *)
  (c_groups c <> None -> c_bins c <> None) /\ (c_count c <> None -> c_groups c <> None).

Ltac crush :=
  unfold valid, opt_is in *; cbn in *;
  repeat match goal with
  | H : _ /\ _ |- _ => destruct H
  | H : _ \/ _ |- _ => destruct H
  | H : Some _ = Some _ |- _ => inversion H; clear H; subst
  | H : Some _ = None |- _ => discriminate H
  | H : None = Some _ |- _ => discriminate H
  end; subst; cbn in *; repeat split; try (left; reflexivity); try (right; reflexivity); try congruence; auto.

Lemma valid_empty s : valid s empty_caches.
Proof. crush. Qed.

Lemma fill_bins_valid s c : valid s c -> valid s (fill_bins s c) /\ c_bins (fill_bins s c) = Some (bins_key s).
Proof.
  intro H. unfold fill_bins. destruct c as [b g n d f m]. cbn in *. destruct b as [kb|]; crush.
Qed.

Lemma fill_diff_valid s c : valid s c -> valid s (fill_diff s c) /\ c_diff (fill_diff s c) = Some (diff_key s) /\
  c_bins (fill_diff s c) = c_bins c /\ c_groups (fill_diff s c) = c_groups c /\ c_count (fill_diff s c) = c_count c /\ c_cof (fill_diff s c) = c_cof c.
Proof.
  intro H. unfold fill_diff. destruct c as [b g n d f m]. cbn in *. destruct d as [kd|]; crush.
Qed.

Lemma fill_groups_valid s c : valid s c -> valid s (fill_groups s c) /\ c_groups (fill_groups s c) = Some (groups_key s) /\
  c_bins (fill_groups s c) = Some (bins_key s) /\ c_diff (fill_groups s c) = c_diff c /\ c_cof (fill_groups s c) = c_cof c /\
  (c_count (fill_groups s c) = c_count c).
Proof.
  intro H. unfold fill_groups. destruct (fill_bins_valid s c H) as [Hv Hb].
  destruct c as [b g n d f m]. unfold fill_bins in *. cbn in *.
  destruct b as [kb|]; destruct g as [kg|]; crush.
Qed.

Ltac brute c :=
  destruct c as [b g n d f m]; destruct b, g, n, d, f;
  unfold fill_count, fill_cof, fill_diff, fill_groups, fill_bins in *; cbn in *; crush.

Lemma fill_count_valid s c : valid s c -> valid s (fill_count s c) /\ c_count (fill_count s c) = Some (groups_key s).
Proof. intro H. brute c. Qed.

Lemma fill_exp_valid s c : valid s c -> valid s (fill_diff s (fill_groups s c)) /\
  c_groups (fill_diff s (fill_groups s c)) = Some (groups_key s) /\ c_diff (fill_diff s (fill_groups s c)) = Some (diff_key s).
Proof. intro H. brute c. Qed.

Lemma fill_cof_valid s c : valid s c -> valid s (fill_cof s c) /\ c_cof (fill_cof s c) = Some (cof_key s).
Proof. intro H. brute c. Qed.

Theorem read_valid s c o : valid s c -> is_read o = true ->
  valid s (fst (read_op s c o)) /\ snd (read_op s c o) = fresh s o.
Proof.
  intros H Hr. destruct o; try discriminate Hr; cbn [read_op fresh].
  - (* ReadBins *) destruct (fill_bins_valid s c H) as [Hv Hb]. cbn [fst snd]. rewrite Hb. split; [exact Hv|reflexivity].
  - (* ReadNLags *) destruct (s_nlags s) eqn:E; cbn [fst snd]; try (split; [exact H|reflexivity]).
    destruct (fill_bins_valid s c H) as [Hv Hb]. rewrite Hb. split; [exact Hv|reflexivity].
  - (* ReadCount *) destruct (fill_count_valid s c H) as [Hv Hn]. cbn [fst snd]. rewrite Hn. split; [exact Hv|reflexivity].
  - (* ReadExperimental *) destruct (fill_exp_valid s c H) as (Hv & Hg & Hd). cbn [fst snd]. rewrite Hg, Hd. split; [exact Hv|reflexivity].
  - (* ReadParameters *) destruct (fill_cof_valid s c H) as [Hv Hf]. cbn [fst snd]. rewrite Hf. split; [exact Hv|reflexivity].
Qed.

Theorem set_valid s c o : valid s c -> is_read o = false -> safe_op s c o = true -> admissible_op s o = true ->
  valid (fst (set_op s c o)) (snd (set_op s c o)).
Proof.
  intros H Hr Hs Ha. destruct s as [d v nl ml bf e mo nu fm sg az tl bw dm]. destruct c as [cb cg cn cd cf cm].
  destruct o; try discriminate Hr; cbn [set_op fst snd upd_s reset_dir] in *.
  (* SetUseNugget: by safe_op either the flag is unchanged or no coefficients are cached *)
  all: try match goal with Hn : safe_op _ _ (SetUseNugget _) = true |- _ =>
         cbn in Hn; destruct cf as [kf|]; [rewrite orb_false_r in Hn; apply Bool.eqb_prop in Hn; subst; exact H|solve [crush]] end.
  all: try match goal with x : binf |- _ => destruct x end.
  all: try solve [crush].
  all: try solve [destruct bf; crush].
Qed.

(* ---- every reachable state is valid, every read equals the fresh instance ---- *)
Fixpoint ok_ops (st : settings * caches) (ops : list op) : Prop :=
  match ops with
  | [] => True
  | o :: r => (is_read o = false -> safe_op (fst st) (snd st) o = true /\ admissible_op (fst st) o = true) /\ ok_ops (fst (step st o)) r
  end.

Lemma step_valid s c o : valid s c ->
  (is_read o = false -> safe_op s c o = true /\ admissible_op s o = true) ->
  valid (fst (fst (step (s, c) o))) (snd (fst (step (s, c) o))) /\
  (is_read o = true -> fst (fst (step (s, c) o)) = s /\ snd (step (s, c) o) = fresh s o).
Proof.
  intros H Hok. unfold step. destruct (is_read o) eqn:Er.
  - destruct (read_valid s c o H Er) as [Hv Ho]. destruct (read_op s c o) as [c' ob]. cbn in *. split; [exact Hv|]. intros _. split; [reflexivity|exact Ho].
  - destruct (Hok eq_refl) as [Hs Ha]. pose proof (set_valid s c o H Er Hs Ha) as Hv. destruct (set_op s c o) as [s' c']. cbn in *. split; [exact Hv|discriminate].
Qed.

Fixpoint fresh_run (st : settings * caches) (ops : list op) : list obs :=
  match ops with
  | [] => []
  | o :: r => (if is_read o then fresh (fst st) o else ONone) :: fresh_run (fst (step st o)) r
  end.

Theorem equivalent_to_fresh ops : forall s c, valid s c -> ok_ops (s, c) ops -> run (s, c) ops = fresh_run (s, c) ops.
Proof.
  induction ops as [|o r IH]; intros s c H Hok; [reflexivity|].
  cbn [run fresh_run ok_ops fst snd] in *. destruct Hok as [Ho Hr].
  destruct (step_valid s c o H Ho) as [Hv Hobs].
  destruct (step (s, c) o) as [[s' c'] ob] eqn:E. cbn [fst snd] in *.
  f_equal.
  - destruct (is_read o) eqn:Er.
    + destruct (Hobs eq_refl) as [_ Hf]. exact Hf.
    + unfold step in E. rewrite Er in E. inversion E. reflexivity.
  - apply IH; assumption.
Qed.

Corollary fresh_start_equivalent s ops : ok_ops (s, empty_caches) ops -> run (s, empty_caches) ops = fresh_run (s, empty_caches) ops.
Proof. apply equivalent_to_fresh. apply valid_empty. Qed.
