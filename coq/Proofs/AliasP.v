(* C18: non-interference.  After construction no sequence of caller-side writes (into the arrays passed in,
   into returned lag edges, into clones), reads and clones changes what the instance computes from. *)
From SG Require Import Base.Prelude Model.Alias.

Definition Inv (s : st) : Prop :=
  (forall l, In l (inst s) -> (l < next s)%nat /\ ~ In l (reach s)) /\ (forall l, In l (reach s) -> (l < next s)%nat).

Definition contents (s : st) : list nat := map (lookup (mem s)) (inst s).

Lemma lookup_update_other m l l' v : l <> l' -> lookup (update m l v) l' = lookup m l'.
Proof. intro H. unfold update. cbn. destruct (Nat.eqb_spec l l'); [contradiction|reflexivity]. Qed.

Lemma contents_update s l v : (forall k, In k (inst s) -> k <> l) ->
  map (lookup (update (mem s) l v)) (inst s) = map (lookup (mem s)) (inst s).
Proof.
  intro H. apply map_ext_in. intros k Hk. apply lookup_update_other. intro E. apply (H k Hk). symmetry. exact E.
Qed.

Lemma existsb_eqb_In l r : existsb (Nat.eqb l) r = true <-> In l r.
Proof.
  rewrite existsb_exists. split.
  - intros (x & Hx & E). apply Nat.eqb_eq in E. subst. exact Hx.
  - intro H. exists l. split; [exact H|apply Nat.eqb_refl].
Qed.

Lemma clone_step_keeps a x : Inv a -> Inv (clone_step a x) /\ contents (clone_step a x) = contents a /\ inst (clone_step a x) = inst a /\ next (clone_step a x) = S (next a).
Proof.
  intros [Ai Ar]. unfold clone_step. split; [split|split; [|split]]; cbn [mem next inst reach].
  - intros k Hk. destruct (Ai k Hk) as [A1 A2]. split; [lia|]. intros [E|Hin]; [lia|contradiction].
  - intros k [E|Hk]; [lia|]. specialize (Ar k Hk). lia.
  - unfold contents. cbn [mem inst]. apply contents_update. intros k Hk E. destruct (Ai k Hk). lia.
  - reflexivity.
  - reflexivity.
Qed.

Lemma clone_fold ls : forall a, Inv a -> (forall k, In k ls -> (k < next a)%nat) ->
  Inv (fold_left clone_step ls a) /\ contents (fold_left clone_step ls a) = contents a /\ inst (fold_left clone_step ls a) = inst a.
Proof.
  induction ls as [|x xs IH]; intros a Ha Hls; cbn [fold_left]; [split; [exact Ha|split; reflexivity]|].
  destruct (clone_step_keeps a x Ha) as (I1 & C1 & N1 & X1).
  destruct (IH (clone_step a x) I1) as (H1 & H2 & H3); [intros k Hk; rewrite X1; specialize (Hls k (or_intror Hk)); lia|].
  split; [exact H1|split; [rewrite H2; exact C1|rewrite H3; exact N1]].
Qed.

(* a step that does not rebind the arrays keeps the invariant and the instance's contents *)
Lemma step_keeps s o : Inv s -> rebinds o = false ->
  Inv (fst (astep s o)) /\ contents (fst (astep s o)) = contents s /\ inst (fst (astep s o)) = inst s /\
  (forall ob, snd (astep s o) = Some ob -> ob = contents s).
Proof.
  intros [Hi Hr] Hn. destruct o; try discriminate Hn; cbn [astep].
  - (* ExtWrite *) destruct (existsb (Nat.eqb l) (reach s)) eqn:E; cbn [fst snd].
    + apply existsb_eqb_In in E. split; [split|split; [|split]].
      * intros k Hk. apply Hi. exact Hk.
      * intros k Hk. apply Hr. exact Hk.
      * unfold contents. cbn [mem inst]. apply contents_update. intros k Hk E2. subst. destruct (Hi l Hk) as [_ Hnr]. contradiction.
      * reflexivity.
      * intros ob Hob. discriminate Hob.
    + split; [split; assumption|split; [reflexivity|split; [reflexivity|intros ob Hob; discriminate Hob]]].
  - (* GetBins *) unfold alloc. cbn [fst snd mem next inst reach]. split; [split|split; [|split]].
    + intros l Hl. cbn [inst next reach]. destruct (Hi l Hl) as [A1 A2]. split; [lia|]. intros [E|Hin]; [lia|contradiction].
    + intros k [E|Hk]; cbn [next]; [lia|]. specialize (Hr k Hk). lia.
    + unfold contents. cbn [mem inst]. apply contents_update. intros k Hk E. destruct (Hi k Hk). lia.
    + reflexivity.
    + intros ob Hob. discriminate Hob.
  - (* Clone *)
    destruct (clone_fold (inst s) s (conj Hi Hr)) as (H1 & H2 & H3); [intros k Hk; apply Hi; exact Hk|].
    cbn [fst snd]. split; [exact H1|split; [exact H2|split; [exact H3|intros ob Hob; discriminate Hob]]].
  - (* Observe *) cbn [fst snd]. split; [split; assumption|split; [reflexivity|split; [reflexivity|]]].
    intros ob E. injection E as <-. reflexivity.
Qed.

(* construction from caller arrays (copies) establishes the invariant *)
Lemma construct_inv s c v : (forall l, In l (reach s) -> (l < next s)%nat) -> (c < next s)%nat -> (v < next s)%nat ->
  Inv (fst (astep s (Construct c v))).
Proof.
  intros Hr Hc Hv. cbn [astep]. unfold alloc. cbn [fst mem next inst reach]. unfold Inv. cbn [inst next reach]. split.
  - intros l Hl. cbn [In] in Hl. destruct Hl as [E|[E|[]]]; subst l; (split; [lia|]); intro Hin; cbn [In] in Hin; destruct Hin as [E|[E|Hin]]; try lia; specialize (Hr _ Hin); lia.
  - intros l Hl. cbn [In] in Hl. destruct Hl as [E|[E|Hin]]; try lia. specialize (Hr _ Hin). lia.
Qed.

(* ---- the theorem: after a construction, any history without re-binding leaves every observation equal to the
   contents at construction time ---- *)
Theorem non_interference ops : forall s, Inv s -> forallb (fun o => negb (rebinds o)) ops = true ->
  Forall (fun ob => match ob with Some x => x = contents s | None => True end) (arun s ops).
Proof.
  induction ops as [|o r IH]; intros s Hs Hall; cbn [arun]; [constructor|].
  cbn [forallb] in Hall. apply andb_true_iff in Hall. destruct Hall as [Ho Hr]. apply negb_true_iff in Ho.
  destruct (step_keeps s o Hs Ho) as (H1 & H2 & H3 & H4).
  destruct (astep s o) as [s' ob] eqn:E. cbn [fst snd] in *. constructor.
  - destruct ob as [x|]; [apply H4; reflexivity|exact I].
  - specialize (IH s' H1 Hr). rewrite H2 in IH. exact IH.
Qed.

(* the aliasing constructor (np.asarray instead of a copy) breaks it: a later caller write changes the instance *)
Theorem alias_refuted : exists s ops, arun s ops <> arun s (map (fun o => match o with ExtWrite _ _ => Observe | _ => o end) ops) /\
  nth 1 (arun s ops) None <> nth 3 (arun s ops) None.
Proof.
  exists (init [(0, 7); (1, 9)]%nat 2%nat), [ConstructAlias 0 1; Observe; ExtWrite 1 5; Observe].
  split; vm_compute; discriminate.
Qed.
