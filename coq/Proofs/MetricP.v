(* C20: dense distance matrices (squareform of pdist) hold the pairwise distances. *)
From SG Require Import Base.Prelude Model.Pairs Model.Kriging Proofs.PairsP Proofs.KrigingP.

Lemma nth_of_nth_error {A} (l : list A) k x d : nth_error l k = Some x -> nth k l d = x.
Proof. intro H. apply nth_error_nth. exact H. Qed.

(* entry of the condensed vector at scipy's index = the pair function applied to points i and j *)
Theorem condensed_entry {A B} (f : A -> A -> B) (l : list A) (d : A) (db : B) i j :
  (i < j)%nat -> (j < length l)%nat ->
  nth (cidx (length l) i j) (pdist f l) db = f (nth i l d) (nth j l d).
Proof.
  intros Hij Hj. rewrite (pdist_as_pairs f d l).
  pose proof (nth_error_pdist_seq (length l) 0 i j ltac:(lia) Hij ltac:(lia)) as H.
  rewrite !Nat.sub_0_r in H. fold (pairs (length l)) in H.
  apply nth_of_nth_error. rewrite nth_error_map, H. reflexivity.
Qed.

(* the full matrix: zero diagonal, symmetric, entry (i,j) = distance of points i and j *)
Theorem squareform_entry {A} (f : A -> A -> Q) (l : list A) (d : A) i j :
  (i < length l)%nat -> (j < length l)%nat -> (forall x y, f x y = f y x) ->
  sq_entry 0%Q (pdist f l) (length l) i j = if Nat.eqb i j then 0%Q else f (nth i l d) (nth j l d).
Proof.
  intros Hi Hj Hsym. unfold sq_entry. destruct (Nat.eqb_spec i j) as [->|Hne]; [reflexivity|].
  destruct (Nat.ltb_spec i j) as [Hlt|Hge].
  - apply condensed_entry; assumption.
  - rewrite (condensed_entry f l d 0%Q j i) by lia. apply Hsym.
Qed.

Theorem squareform_symmetric {A} (zero : A) c n i j : sq_entry zero c n i j = sq_entry zero c n j i.
Proof.
  unfold sq_entry. destruct (Nat.eqb_spec i j) as [->|Hne]; [rewrite Nat.eqb_refl; reflexivity|].
  rewrite (proj2 (Nat.eqb_neq j i)) by lia.
  destruct (Nat.ltb_spec i j), (Nat.ltb_spec j i); try lia; reflexivity.
Qed.

Theorem squareform_diagonal {A} (zero : A) c n i : sq_entry zero c n i i = zero.
Proof. unfold sq_entry. rewrite Nat.eqb_refl. reflexivity. Qed.
