(* C12 / C13: the direction mask generated from DirectionalVariogram.py selects a pair iff the unsigned
   angle between the pair's line and the azimuth line is at most tolerance/2 (and, for the triangle,
   its perpendicular offset is at most bandwidth/2).  All real inputs. *)
From Coq Require Import Reals Lra Lia.
From SG Require Import Gen.Direction.
Local Open Scope R_scope.

Definition fold (x : R) : R :=
  let a := if Rgt_dec x PI then x - PI else x in
  if Rgt_dec a (PI / 2) then PI - a else a.

Lemma cos_PI_minus x : cos (PI - x) = - cos x.
Proof. rewrite cos_minus, cos_PI, sin_PI. ring. Qed.
Lemma cos_minus_PI x : cos (x - PI) = - cos x.
Proof. rewrite cos_minus, cos_PI, sin_PI. ring. Qed.
Lemma cos_2PI_minus x : cos (2 * PI - x) = cos x.
Proof. rewrite cos_minus, cos_2PI, sin_2PI. ring. Qed.

(* folding an angle of [0, 2 pi] into [0, pi/2]: the angle between undirected lines *)
Theorem fold_char x : 0 <= x -> x <= 2 * PI ->
  0 <= fold x /\ fold x <= PI / 2 /\ cos (fold x) = Rabs (cos x).
Proof.
  intros H0 H2. pose proof PI_RGT_0 as Hpi. unfold fold.
  destruct (Rgt_dec x PI) as [G1|G1]; cbv zeta.
  - destruct (Rgt_dec (x - PI) (PI / 2)) as [G2|G2].
    + (* x in (3pi/2, 2pi] : fold = 2pi - x *)
      repeat split; try lra.
      replace (PI - (x - PI)) with (2 * PI - x) by ring. rewrite cos_2PI_minus.
      rewrite Rabs_right; [reflexivity|]. apply Rle_ge. apply cos_ge_0_3PI2; lra.
    + (* x in (pi, 3pi/2] : fold = x - pi *)
      repeat split; try lra.
      rewrite cos_minus_PI. rewrite Rabs_left1; [reflexivity|]. apply cos_le_0; lra.
  - destruct (Rgt_dec x (PI / 2)) as [G2|G2].
    + (* x in (pi/2, pi] : fold = pi - x *)
      repeat split; try lra.
      rewrite cos_PI_minus. rewrite Rabs_left1; [reflexivity|]. apply cos_le_0; lra.
    + (* x in [0, pi/2] *)
      repeat split; try lra.
      rewrite Rabs_right; [reflexivity|]. apply Rle_ge. apply cos_ge_0; lra.
Qed.

(* the generated masks are `fold |angle + azimuth| <= tolerance/2` (and the band condition) *)
Lemma compass_unfold az tol ang d :
  compass az tol ang d <-> fold (Rabs (ang + az * PI / 180)) <= tol / 2 * PI / 180.
Proof. unfold compass, fold. cbv zeta. reflexivity. Qed.

Lemma triangle_unfold az tol bw ang d :
  triangle az tol bw ang d <->
  fold (Rabs (ang + az * PI / 180)) <= tol / 2 * PI / 180 /\ bw / 2 >= Rabs (d * sin (Rabs (ang + az * PI / 180))).
Proof. unfold triangle, fold. cbv zeta. reflexivity. Qed.

(* ---- the angle of a pair vector u = (dx, dy), n = |u| > 0 ---- *)
Section Pair.
  Variables dx dy n : R.
  Hypothesis n_pos : 0 < n.
  Hypothesis n_def : n * n = dx * dx + dy * dy.

  Let theta := pair_angle dx dy n.

  Lemma ratio_range : -1 <= dx / n <= 1.
  Proof.
    assert (Hdx : dx * dx <= n * n) by nra.
    assert (H1 : - n <= dx <= n).
    { destruct (Rle_dec dx n) as [A|A]; destruct (Rle_dec (- n) dx) as [B|B]; try lra; exfalso.
      - assert (n < - dx) by lra. assert (n * n < (- dx) * (- dx)) by (apply Rmult_le_0_lt_compat; lra). lra.
      - assert (n < dx) by lra. assert (n * n < dx * dx) by (apply Rmult_le_0_lt_compat; lra). lra. }
    assert (E : dx / n * n = dx) by (field; lra).
    split; nra.
  Qed.

  Lemma sqrt_part : sqrt (1 - (dx / n)²) = Rabs dy / n.
  Proof.
    assert (E : 1 - (dx / n)² = (dy / n)²).
    { unfold Rsqr. field_simplify_eq; [|lra]. pose proof n_def. nra. }
    rewrite E, sqrt_Rsqr_abs. unfold Rdiv. rewrite Rabs_mult, (Rabs_right (/ n)); [reflexivity|].
    apply Rle_ge. left. apply Rinv_0_lt_compat. exact n_pos.
  Qed.

  Lemma theta_cos : cos theta = dx / n.
  Proof.
    unfold theta, pair_angle. cbv zeta. destruct (Rge_dec dy 0); [|rewrite cos_neg]; apply cos_acos; apply ratio_range.
  Qed.

  Lemma theta_sin : sin theta = dy / n.
  Proof.
    unfold theta, pair_angle. cbv zeta. destruct (Rge_dec dy 0) as [G|G].
    - rewrite sin_acos by apply ratio_range. rewrite sqrt_part, Rabs_right by exact G. reflexivity.
    - rewrite sin_neg, sin_acos by apply ratio_range. rewrite sqrt_part, Rabs_left by lra. field. lra.
  Qed.

  Lemma theta_range : - PI <= theta <= PI.
  Proof.
    unfold theta, pair_angle. cbv zeta. pose proof (acos_bound (dx / n)) as B.
    destruct (Rge_dec dy 0); lra.
  Qed.

  (* direction of the azimuth line: 0 degrees = East, positive clockwise *)
  Variable az : R.
  Let azr := az * PI / 180.
  Definition dir_x := cos azr.
  Definition dir_y := - sin azr.

  Lemma cos_sum : cos (theta + azr) = (dx * dir_x + dy * dir_y) / n.
  Proof. rewrite cos_plus, theta_cos, theta_sin. unfold dir_x, dir_y. field. lra. Qed.

  Lemma sin_sum : sin (theta + azr) = (dy * dir_x - dx * dir_y) / n.
  Proof. rewrite sin_plus, theta_cos, theta_sin. unfold dir_x, dir_y. field. lra. Qed.

  Hypothesis az_range : -180 <= az <= 180.

  Lemma azr_range : - PI <= azr <= PI.
  Proof. unfold azr. pose proof PI_RGT_0. split; nra. Qed.

  Lemma abs_sum_range : 0 <= Rabs (theta + azr) <= 2 * PI.
  Proof.
    pose proof theta_range. pose proof azr_range. split; [apply Rabs_pos|].
    apply Rabs_le. lra.
  Qed.

  Lemma cos_abs x : cos (Rabs x) = cos x.
  Proof. unfold Rabs. destruct (Rcase_abs x); [apply cos_neg|reflexivity]. Qed.

  (* the folded angle IS the unsigned angle between the pair's line and the azimuth line *)
  Theorem folded_angle_is_line_angle :
    fold (Rabs (theta + azr)) = acos (Rabs (dx * dir_x + dy * dir_y) / n).
  Proof.
    destruct abs_sum_range as [A0 A1].
    destruct (fold_char (Rabs (theta + azr)) A0 A1) as (F0 & F1 & FC).
    rewrite cos_abs, cos_sum in FC.
    assert (E : Rabs ((dx * dir_x + dy * dir_y) / n) = Rabs (dx * dir_x + dy * dir_y) / n).
    { unfold Rdiv. rewrite Rabs_mult, (Rabs_right (/ n)); [reflexivity|]. apply Rle_ge. left. apply Rinv_0_lt_compat. exact n_pos. }
    rewrite E in FC. rewrite <- FC. symmetry. apply acos_cos. pose proof PI_RGT_0. lra.
  Qed.

  (* C12 (compass): selected iff that angle is at most tolerance / 2 *)
  Theorem compass_iff_geometry tol d :
    compass az tol theta d <-> acos (Rabs (dx * dir_x + dy * dir_y) / n) <= tol / 2 * PI / 180.
  Proof. rewrite compass_unfold. fold azr. rewrite folded_angle_is_line_angle. reflexivity. Qed.

  (* perpendicular offset of the pair from the azimuth line = |u x a| (d = n) *)
  Lemma sin_abs_abs x : Rabs (sin (Rabs x)) = Rabs (sin x).
  Proof. unfold Rabs at 2. destruct (Rcase_abs x); [rewrite sin_neg, Rabs_Ropp|]; reflexivity. Qed.

  Theorem triangle_iff_geometry tol bw :
    triangle az tol bw theta n <->
    acos (Rabs (dx * dir_x + dy * dir_y) / n) <= tol / 2 * PI / 180 /\ Rabs (dy * dir_x - dx * dir_y) <= bw / 2.
  Proof.
    rewrite triangle_unfold. fold azr. rewrite folded_angle_is_line_angle.
    rewrite Rabs_mult, sin_abs_abs, sin_sum, (Rabs_right n) by lra.
    assert (E : n * Rabs ((dy * dir_x - dx * dir_y) / n) = Rabs (dy * dir_x - dx * dir_y)).
    { unfold Rdiv. rewrite Rabs_mult, (Rabs_right (/ n)); [field; lra|]. apply Rle_ge. left. apply Rinv_0_lt_compat. exact n_pos. }
    rewrite E. split; intros [H1 H2]; split; try exact H1; lra.
  Qed.
End Pair.

(* ---------------------------------------------------------------- symmetries (C13) *)
Lemma norm_opp dx dy n : n * n = dx * dx + dy * dy -> n * n = (- dx) * (- dx) + (- dy) * (- dy).
Proof. intro H. rewrite H. ring. Qed.

(* the decision does not depend on the order of the two points *)
Theorem compass_order_independent dx dy n az tol d d' :
  0 < n -> n * n = dx * dx + dy * dy -> -180 <= az <= 180 ->
  (compass az tol (pair_angle dx dy n) d <-> compass az tol (pair_angle (- dx) (- dy) n) d').
Proof.
  intros Hn Hd Ha.
  rewrite (compass_iff_geometry dx dy n Hn Hd az Ha tol d).
  rewrite (compass_iff_geometry (- dx) (- dy) n Hn (norm_opp dx dy n Hd) az Ha tol d').
  replace (- dx * dir_x az + - dy * dir_y az) with (- (dx * dir_x az + dy * dir_y az)) by ring.
  rewrite Rabs_Ropp. reflexivity.
Qed.

Theorem triangle_order_independent dx dy n az tol bw :
  0 < n -> n * n = dx * dx + dy * dy -> -180 <= az <= 180 ->
  (triangle az tol bw (pair_angle dx dy n) n <-> triangle az tol bw (pair_angle (- dx) (- dy) n) n).
Proof.
  intros Hn Hd Ha.
  rewrite (triangle_iff_geometry dx dy n Hn Hd az Ha tol bw).
  rewrite (triangle_iff_geometry (- dx) (- dy) n Hn (norm_opp dx dy n Hd) az Ha tol bw).
  replace (- dx * dir_x az + - dy * dir_y az) with (- (dx * dir_x az + dy * dir_y az)) by ring.
  replace (- dy * dir_x az - - dx * dir_y az) with (- (dy * dir_x az - dx * dir_y az)) by ring.
  rewrite !Rabs_Ropp. reflexivity.
Qed.

(* azimuths that differ by 180 degrees describe the same line *)
Lemma dir_plus_180 az : dir_x (az + 180) = - dir_x az /\ dir_y (az + 180) = - dir_y az.
Proof.
  unfold dir_x, dir_y. replace ((az + 180) * PI / 180) with (az * PI / 180 + PI) by (field).
  rewrite neg_cos, neg_sin. split; ring.
Qed.

Theorem compass_azimuth_180 dx dy n az tol d :
  0 < n -> n * n = dx * dx + dy * dy -> -180 <= az <= 0 ->
  (compass az tol (pair_angle dx dy n) d <-> compass (az + 180) tol (pair_angle dx dy n) d).
Proof.
  intros Hn Hd Ha.
  rewrite (compass_iff_geometry dx dy n Hn Hd az ltac:(lra) tol d).
  rewrite (compass_iff_geometry dx dy n Hn Hd (az + 180) ltac:(lra) tol d).
  destruct (dir_plus_180 az) as [-> ->].
  replace (dx * - dir_x az + dy * - dir_y az) with (- (dx * dir_x az + dy * dir_y az)) by ring.
  rewrite Rabs_Ropp. reflexivity.
Qed.

(* a tolerance of 180 degrees selects every pair of distinct points *)
Lemma acos_nonneg_le_half x : 0 <= x -> x <= 1 -> acos x <= PI / 2.
Proof.
  intros H0 H1. destruct (Rle_dec (acos x) (PI / 2)) as [L|G]; [exact L|exfalso].
  pose proof (acos_bound x) as B. pose proof PI_RGT_0.
  assert (cos (acos x) < 0) by (apply cos_lt_0; lra).
  rewrite cos_acos in H2 by lra. lra.
Qed.

Theorem compass_tolerance_180 dx dy n az d :
  0 < n -> n * n = dx * dx + dy * dy -> -180 <= az <= 180 -> compass az 180 (pair_angle dx dy n) d.
Proof.
  intros Hn Hd Ha. rewrite (compass_iff_geometry dx dy n Hn Hd az Ha 180 d).
  replace (180 / 2 * PI / 180) with (PI / 2) by field.
  apply acos_nonneg_le_half.
  - apply Rmult_le_pos; [apply Rabs_pos|left; apply Rinv_0_lt_compat; exact Hn].
  - (* |u.a| <= |u| |a| = n : Cauchy-Schwarz with |a| = 1 *)
    assert (Ha1 : dir_x az * dir_x az + dir_y az * dir_y az = 1).
    { unfold dir_x, dir_y. pose proof (sin2_cos2 (az * PI / 180)) as S. unfold Rsqr in S. lra. }
    assert (Hcs : (dx * dir_x az + dy * dir_y az) * (dx * dir_x az + dy * dir_y az) <= n * n).
    { rewrite Hd.
      assert (E : (dx * dx + dy * dy) * (dir_x az * dir_x az + dir_y az * dir_y az) - (dx * dir_x az + dy * dir_y az) * (dx * dir_x az + dy * dir_y az)
                  = (dx * dir_y az - dy * dir_x az) * (dx * dir_y az - dy * dir_x az)) by ring.
      rewrite Ha1, Rmult_1_r in E.
      assert (0 <= (dx * dir_y az - dy * dir_x az) * (dx * dir_y az - dy * dir_x az)) by (apply Rle_0_sqr).
      lra. }
    assert (Hab : Rabs (dx * dir_x az + dy * dir_y az) <= n).
    { apply Rabs_le. split.
      - destruct (Rle_dec (- n) (dx * dir_x az + dy * dir_y az)) as [L|G]; [exact L|exfalso].
        assert (n < - (dx * dir_x az + dy * dir_y az)) by lra.
        assert (n * n < (- (dx * dir_x az + dy * dir_y az)) * (- (dx * dir_x az + dy * dir_y az))) by (apply Rmult_le_0_lt_compat; lra). lra.
      - destruct (Rle_dec (dx * dir_x az + dy * dir_y az) n) as [L|G]; [exact L|exfalso].
        assert (n < dx * dir_x az + dy * dir_y az) by lra.
        assert (n * n < (dx * dir_x az + dy * dir_y az) * (dx * dir_x az + dy * dir_y az)) by (apply Rmult_le_0_lt_compat; lra). lra. }
    apply (Rmult_le_reg_r n); [exact Hn|]. unfold Rdiv. rewrite Rmult_assoc, Rinv_l by lra. lra.
Qed.

(* rotating the pair vector and the azimuth direction by the same angle keeps dot and cross product *)
Theorem rotation_invariant dx dy ax ay c s : c * c + s * s = 1 ->
  (dx * c - dy * s) * (ax * c - ay * s) + (dx * s + dy * c) * (ax * s + ay * c) = dx * ax + dy * ay /\
  (dx * s + dy * c) * (ax * c - ay * s) - (dx * c - dy * s) * (ax * s + ay * c) = dy * ax - dx * ay /\
  (dx * c - dy * s) * (dx * c - dy * s) + (dx * s + dy * c) * (dx * s + dy * c) = dx * dx + dy * dy.
Proof.
  intro H. repeat split.
  - replace ((dx * c - dy * s) * (ax * c - ay * s) + (dx * s + dy * c) * (ax * s + ay * c)) with ((dx * ax + dy * ay) * (c * c + s * s)) by ring.
    rewrite H. ring.
  - replace ((dx * s + dy * c) * (ax * c - ay * s) - (dx * c - dy * s) * (ax * s + ay * c)) with ((dy * ax - dx * ay) * (c * c + s * s)) by ring.
    rewrite H. ring.
  - replace ((dx * c - dy * s) * (dx * c - dy * s) + (dx * s + dy * c) * (dx * s + dy * c)) with ((dx * dx + dy * dy) * (c * c + s * s)) by ring.
    rewrite H. ring.
Qed.

(* rotating the azimuth clockwise by phi degrees rotates its direction vector by -phi *)
Lemma dir_rotated az phi :
  dir_x (az - phi) = dir_x az * cos (phi * PI / 180) - dir_y az * sin (phi * PI / 180) /\
  dir_y (az - phi) = dir_x az * sin (phi * PI / 180) + dir_y az * cos (phi * PI / 180).
Proof.
  unfold dir_x, dir_y. replace ((az - phi) * PI / 180) with (az * PI / 180 - phi * PI / 180) by field.
  rewrite cos_minus, sin_minus. split; ring.
Qed.
