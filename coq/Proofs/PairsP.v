(* Facts about the condensed pair enumeration (all n). *)
From SG Require Import Base.Prelude Model.Pairs.

Lemma pdist_length {A B} (f : A -> A -> B) (l : list A) :
  2 * length (pdist f l) = length l * (length l - 1).
Proof.
  induction l as [|x xs IH]; cbn [pdist length]; [reflexivity|].
  rewrite app_length, map_length. nia.
Qed.

Lemma pairs_length n : 2 * length (pairs n) = n * (n - 1).
Proof. unfold pairs. rewrite pdist_length, seq_length. reflexivity. Qed.

Lemma pdist_map {A B C} (g : A -> C) (f : C -> C -> B) (l : list A) :
  pdist f (map g l) = pdist (fun x y => f (g x) (g y)) l.
Proof.
  induction l as [|x xs IH]; cbn [pdist map]; [reflexivity|].
  rewrite map_map, IH. reflexivity.
Qed.

Lemma nth_error_seq a n k : k < n -> nth_error (seq a n) k = Some (a + k).
Proof.
  intro H. rewrite (nth_error_nth' _ 0) by (rewrite seq_length; exact H).
  rewrite seq_nth by exact H. reflexivity.
Qed.

Lemma map_nth_seq_app {A} (d : A) (xs l0 : list A) :
  map (fun j => nth j (l0 ++ xs) d) (seq (length l0) (length xs)) = xs.
Proof.
  revert l0. induction xs as [|y ys IH]; intro l0; cbn [length seq map]; [reflexivity|].
  rewrite app_nth2, Nat.sub_diag by lia. cbn [nth]. f_equal.
  specialize (IH (l0 ++ [y])). rewrite <- app_assoc, app_length in IH. cbn [app length] in IH.
  rewrite Nat.add_1_r in IH. exact IH.
Qed.

(* pdist of any function is the image of the index pairs *)
Lemma pdist_as_pairs_gen {A B} (f : A -> A -> B) (d : A) (l l0 : list A) :
  pdist f l = map (fun p => f (nth (fst p) (l0 ++ l) d) (nth (snd p) (l0 ++ l) d))
                  (pdist pair (seq (length l0) (length l))).
Proof.
  revert l0. induction l as [|x xs IH]; intro l0; cbn [pdist length seq map]; [reflexivity|].
  rewrite map_app, map_map. f_equal.
  - cbn [fst snd]. rewrite app_nth2, Nat.sub_diag by lia. cbn [nth].
    rewrite <- (map_nth_seq_app d xs (l0 ++ [x])) at 1.
    rewrite map_map, <- app_assoc, app_length. cbn [app length]. rewrite Nat.add_1_r. reflexivity.
  - specialize (IH (l0 ++ [x])). rewrite <- app_assoc, app_length in IH. cbn [app length] in IH.
    rewrite Nat.add_1_r in IH. exact IH.
Qed.

Theorem pdist_as_pairs {A B} (f : A -> A -> B) (d : A) (l : list A) :
  pdist f l = map (fun p => f (nth (fst p) l d) (nth (snd p) l d)) (pairs (length l)).
Proof. exact (pdist_as_pairs_gen f d l []). Qed.

Lemma in_pdist_seq a n i j :
  In (i, j) (pdist pair (seq a n)) <-> a <= i /\ i < j /\ j < a + n.
Proof.
  revert a. induction n as [|n IH]; intro a; cbn [seq pdist].
  - split; [intros []|lia].
  - rewrite in_app_iff, in_map_iff, IH. split.
    + intros [[y [E Hy]]|H].
      * inv E. apply in_seq in Hy. lia.
      * lia.
    + intros (H1 & H2 & H3). destruct (Nat.eq_dec a i) as [->|Hne].
      * left. exists j. split; [reflexivity|]. apply in_seq. lia.
      * right. lia.
Qed.

Theorem pairs_spec n i j : In (i, j) (pairs n) <-> i < j /\ j < n.
Proof. unfold pairs. rewrite in_pdist_seq. lia. Qed.

Lemma NoDup_app_intro {A} (l1 l2 : list A) :
  NoDup l1 -> NoDup l2 -> (forall x, In x l1 -> In x l2 -> False) -> NoDup (l1 ++ l2).
Proof.
  induction l1 as [|x xs IH]; intros H1 H2 Hd; cbn [app]; [exact H2|].
  inv H1. constructor.
  - rewrite in_app_iff. intros [H|H]; [contradiction|]. apply (Hd x); [left; reflexivity|exact H].
  - apply IH; [assumption|assumption|]. intros y Hy1 Hy2. apply (Hd y); [right; exact Hy1|exact Hy2].
Qed.

Lemma nodup_pdist_seq a n : NoDup (pdist pair (seq a n)).
Proof.
  revert a. induction n as [|n IH]; intro a; cbn [seq pdist]; [constructor|].
  apply NoDup_app_intro.
  - apply FinFun.Injective_map_NoDup; [|apply seq_NoDup]. intros x y E. congruence.
  - apply IH.
  - intros [i j] H1 H2. apply in_map_iff in H1. destruct H1 as [y [E _]]. inv E.
    apply in_pdist_seq in H2. lia.
Qed.

Theorem pairs_NoDup n : NoDup (pairs n).
Proof. apply nodup_pdist_seq. Qed.

(* ---- closed-form condensed index ---- *)
Definition tri (i : nat) : nat := (i * (i + 1)) / 2.

Lemma tri_S i : tri (S i) = tri i + S i.
Proof.
  unfold tri. replace (S i * (S i + 1)) with (i * (i + 1) + S i * 2) by ring.
  rewrite Nat.div_add by lia. reflexivity.
Qed.

Lemma tri_le i n : i <= n -> tri i <= n * i.
Proof.
  intro H. induction i as [|i IH]; [cbn; lia|].
  rewrite tri_S. assert (tri i <= n * i) by (apply IH; lia). nia.
Qed.

Lemma cidx_unfold n i j : cidx n i j = n * i - tri i + (j - i - 1).
Proof. reflexivity. Qed.

Lemma nth_error_pdist_seq n : forall a i j, a <= i -> i < j -> j < a + n ->
  nth_error (pdist pair (seq a n)) (cidx n (i - a) (j - a)) = Some (i, j).
Proof.
  induction n as [|n IH]; intros a i j H1 H2 H3; [lia|].
  cbn [seq pdist]. rewrite cidx_unfold.
  destruct (Nat.eq_dec i a) as [->|Hne].
  - rewrite Nat.sub_diag. change (tri 0) with 0. rewrite Nat.mul_0_r. cbn [Nat.sub Nat.add].
    rewrite nth_error_app1 by (rewrite map_length, seq_length; lia).
    rewrite nth_error_map.
    replace (j - a - 0 - 1) with (j - S a) by lia.
    rewrite nth_error_seq by lia. cbn. f_equal. f_equal. lia.
  - assert (Hk : i - a = S (i - S a)) by lia.
    rewrite Hk, tri_S.
    assert (Hle : tri (i - S a) <= n * (i - S a)) by (apply tri_le; lia).
    rewrite nth_error_app2 by (rewrite map_length, seq_length; nia).
    rewrite map_length, seq_length.
    specialize (IH (S a) i j ltac:(lia) H2 ltac:(lia)). rewrite cidx_unfold in IH.
    rewrite <- IH. f_equal. nia.
Qed.
