(* C07/C09/C20: the neighbour search sorts the candidates with a STABLE sort (np.argsort(kind="stable")):
   candidates at the same distance keep their relative (index) order, so which of several equidistant
   observations enter the neighbourhood is determined and independent of batch composition. *)
From SG Require Import Base.Prelude Base.NumpyPrims Model.Kriging Proofs.KrigingP.
Local Open Scope Q_scope.

Definition has_key (k : Q) (e : nat * Q) : bool := Qeq_bool (snd e) k.

Lemma insert_by_filter k x l : filter (has_key k) (insert_by x l) = filter (has_key k) (x :: l).
Proof.
  induction l as [|y r IH]; cbn [insert_by]; [reflexivity|].
  destruct (Qle_bool (snd x) (snd y)) eqn:E; [reflexivity|]. qbool.
  cbn [filter] in *. destruct (has_key k y) eqn:Ey.
  - (* y has key k, so x (strictly larger key) has not *)
    assert (Ex : has_key k x = false).
    { unfold has_key in *. apply Qeq_bool_iff in Ey. destruct (Qeq_bool (snd x) k) eqn:Ex; [|reflexivity].
      apply Qeq_bool_iff in Ex. exfalso. lra. }
    rewrite Ex in *. rewrite IH. reflexivity.
  - rewrite IH. reflexivity.
Qed.

Theorem sort_by_stable k l : filter (has_key k) (sort_by l) = filter (has_key k) l.
Proof.
  induction l as [|x r IH]; [reflexivity|]. cbn [sort_by]. rewrite insert_by_filter.
  cbn [filter]. rewrite IH. reflexivity.
Qed.

(* consequence for the selection: among candidates at one and the same distance, an earlier candidate is never
   dropped in favour of a later one *)
Lemma filter_firstn_prefix {A} (p : A -> bool) (l : list A) n :
  exists m, filter p (firstn n l) = firstn m (filter p l).
Proof.
  revert n. induction l as [|a r IH]; intro n.
  - exists 0%nat. rewrite firstn_nil. reflexivity.
  - destruct n as [|n]; [exists 0%nat; reflexivity|]. cbn [firstn filter].
    destruct (IH n) as [m Hm]. destruct (p a).
    + exists (S m). cbn [firstn]. rewrite Hm. reflexivity.
    + exists m. exact Hm.
Qed.

Theorem closest_ties_by_position cands N k :
  exists m, filter (has_key k) (firstn N (sort_by cands)) = firstn m (filter (has_key k) cands).
Proof.
  destruct (filter_firstn_prefix (has_key k) (sort_by cands) N) as [m Hm].
  exists m. rewrite Hm, sort_by_stable. reflexivity.
Qed.

Example stable_example :
  sort_by [(0%nat, 2); (1%nat, 1); (2%nat, 2); (3%nat, 1)] = [(1%nat, 1); (3%nat, 1); (0%nat, 2); (2%nat, 2)].
Proof. vm_compute. reflexivity. Qed.
