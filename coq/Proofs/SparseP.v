(* C11: the truncated (sparse) distance path lists exactly the stored strict-lower-triangle entries,
   each with the difference of its own pair. *)
From SG Require Import Base.Prelude Model.Sparse.
Local Open Scope Q_scope.

Lemma in_tri_lower_from m : forall k i j d,
  In (i, j, d) (tri_lower_from k m) <->
  exists row, nth_error m (i - k) = Some row /\ (k <= i)%nat /\ In (j, d) row /\ (j < i)%nat.
Proof.
  induction m as [|row r IH]; intros k i j d; cbn [tri_lower_from].
  - split; [intros []|]. intros (row & H & _). destruct (i - k)%nat; discriminate.
  - rewrite in_app_iff, IH. unfold tri_row. rewrite in_map_iff. split.
    + intros [((j', d') & E & Hin)|(row' & Hn & Hk & Hin & Hj)].
      * injection E as <- <- <-. apply filter_In in Hin. destruct Hin as [Hin Hlt]. cbn [fst] in Hlt. apply Nat.ltb_lt in Hlt.
        exists row. rewrite Nat.sub_diag. repeat split; try assumption; lia.
      * exists row'. replace (i - k)%nat with (S (i - S k)) by lia. repeat split; try assumption; lia.
    + intros (row' & Hn & Hk & Hin & Hj). destruct (Nat.eq_dec i k) as [->|Hne].
      * rewrite Nat.sub_diag in Hn. injection Hn as <-. left. exists (j, d). split; [reflexivity|].
        apply filter_In. split; [exact Hin|]. cbn [fst]. apply Nat.ltb_lt. exact Hj.
      * right. exists row'. replace (i - k)%nat with (S (i - S k)) in Hn by lia. repeat split; try assumption; lia.
Qed.

(* exactly the stored entries below the diagonal - stored zero distances (co-located points) included *)
Theorem tri_lower_spec m i j d :
  In (i, j, d) (tri_lower m) <-> exists row, nth_error m i = Some row /\ In (j, d) row /\ (j < i)%nat.
Proof.
  unfold tri_lower. rewrite in_tri_lower_from. rewrite Nat.sub_0_r. split.
  - intros (row & H1 & _ & H2 & H3). exists row. repeat split; assumption.
  - intros (row & H1 & H2 & H3). exists row. repeat split; try assumption; lia.
Qed.

(* distance vector and difference vector of the sparse path are aligned: position k of both comes
   from the same stored entry *)
Theorem sparse_aligned m v k :
  nth_error (sparse_distance m) k = option_map snd (nth_error (tri_lower m) k) /\
  nth_error (sparse_diffs m v) k =
    option_map (fun e => Qabs (nth (fst (fst e)) v 0 - nth (snd (fst e)) v 0)) (nth_error (tri_lower m) k).
Proof. unfold sparse_distance, sparse_diffs. split; apply nth_error_map. Qed.

Theorem sparse_lengths m v : length (sparse_distance m) = length (sparse_diffs m v).
Proof. unfold sparse_distance, sparse_diffs. rewrite !map_length. reflexivity. Qed.
