(* C19: the interval returned by the uncertainty propagation is (q/2-th percentile, median, (100-q/2)-th
   percentile) of the members' results; ordering, widening and the zero-noise case.  numpy's percentile /
   median are the linear-interpolated quantile of Base/NumpyPrims.v. *)
From SG Require Import Base.Prelude Base.NumpyPrims Proofs.GroupsP Proofs.NumpyP.
Local Open Scope Q_scope.

Definition lower (l : list Q) (q : Q) : option Q := percentile l (q / 2).
Definition upper (l : list Q) (q : Q) : option Q := percentile l (100 - q / 2).

Lemma pct_frac q : 0 <= q -> q <= 100 -> 0 <= q / 2 / 100 /\ q / 2 / 100 <= 1 # 2 /\ 1 # 2 <= (100 - q / 2) / 100 /\ (100 - q / 2) / 100 <= 1.
Proof.
  intros H0 H1.
  assert (E1 : q / 2 / 100 == q * (1 # 200)) by field.
  assert (E2 : (100 - q / 2) / 100 == 1 - q * (1 # 200)) by field.
  rewrite E1, E2. repeat split; lra.
Qed.

Lemma half_mono q q' : q' <= q -> q' / 2 / 100 <= q / 2 / 100 /\ (100 - q / 2) / 100 <= (100 - q' / 2) / 100.
Proof.
  intro H.
  assert (E1 : q / 2 / 100 == q * (1 # 200)) by field.
  assert (E2 : (100 - q / 2) / 100 == 1 - q * (1 # 200)) by field.
  assert (E1' : q' / 2 / 100 == q' * (1 # 200)) by field.
  assert (E2' : (100 - q' / 2) / 100 == 1 - q' * (1 # 200)) by field.
  rewrite E1, E2, E1', E2'. split; lra.
Qed.

(* lower <= median <= upper *)
Theorem interval_ordered l q lo me up : 0 <= q -> q <= 100 ->
  lower l q = Some lo -> median l = Some me -> upper l q = Some up -> lo <= me /\ me <= up.
Proof.
  intros H0 H1 Hlo Hme Hup. unfold lower, upper, percentile, median in *.
  destruct (pct_frac q H0 H1) as (A & B & C & D).
  assert (h1 : (1 # 2) <= 1) by lra. assert (h0 : 0 <= (1 # 2)) by lra.
  split.
  - exact (quantile_mono l (q / 2 / 100) (1 # 2) lo me A B h1 Hlo Hme).
  - exact (quantile_mono l (1 # 2) ((100 - q / 2) / 100) me up h0 C D Hme Hup).
Qed.

(* lowering q towards the full min-max range never narrows the interval *)
Theorem interval_widens l q q' lo lo' up up' : 0 <= q' -> q' <= q -> q <= 100 ->
  lower l q = Some lo -> lower l q' = Some lo' -> upper l q = Some up -> upper l q' = Some up' ->
  lo' <= lo /\ up <= up'.
Proof.
  intros H0 Hqq H1 Hlo Hlo' Hup Hup'. unfold lower, upper, percentile in *.
  destruct (pct_frac q ltac:(lra) H1) as (A & B & C & D).
  destruct (pct_frac q' H0 ltac:(lra)) as (A' & B' & C' & D').
  split.
  - destruct (half_mono q q' Hqq) as [M1 M2]. assert (h : q / 2 / 100 <= 1) by lra.
    exact (quantile_mono l (q' / 2 / 100) (q / 2 / 100) lo' lo A' M1 h Hlo' Hlo).
  - destruct (half_mono q q' Hqq) as [M1 M2]. assert (h : 0 <= (100 - q / 2) / 100) by lra.
    exact (quantile_mono l ((100 - q / 2) / 100) ((100 - q' / 2) / 100) up up' h M2 D' Hup Hup').
Qed.

(* zero observation uncertainty: all members return the same value c; every percentile of them is c *)
Lemma insert_repeat c n : insert c (repeat c n) = repeat c (S n).
Proof.
  destruct n as [|n]; [reflexivity|]. cbn [repeat insert].
  replace (Qle_bool c c) with true; [reflexivity|]. symmetry. apply Qle_bool_iff. lra.
Qed.

Lemma sortQ_repeat c n : sortQ (repeat c n) = repeat c n.
Proof. induction n as [|n IH]; [reflexivity|]. cbn [repeat sortQ]. rewrite IH. apply insert_repeat. Qed.

Lemma nth_repeat_any (c : Q) n i d : (i < n)%nat -> nth i (repeat c n) d = c.
Proof. revert i. induction n as [|n IH]; intros i Hi; [lia|]. destruct i; cbn; [reflexivity|apply IH; lia]. Qed.

Theorem constant_members c n p v : 0 <= p -> p <= 1 -> quantile (repeat c (S n)) p = Some v -> v == c.
Proof.
  intros H0 H1 Hv. apply quantile_some in Hv. destruct Hv as [_ ->].
  rewrite sortQ_repeat, repeat_length. unfold interp.
  set (pos := inject_Z (Z.of_nat (S n - 1)) * p).
  assert (Hn : 0 <= inject_Z (Z.of_nat (S n - 1))) by (change 0 with (inject_Z 0); rewrite <- Zle_Qle; lia).
  assert (Hp0 : 0 <= pos) by (unfold pos; nra).
  assert (Hpn : pos <= inject_Z (Z.of_nat (S n - 1))) by (unfold pos; nra).
  assert (Hf0 : (0 <= Qfloor pos)%Z) by (change 0%Z with (Qfloor 0); apply Qfloor_resp_le; exact Hp0).
  assert (Hfn : (Qfloor pos <= Z.of_nat (S n - 1))%Z) by (rewrite <- (Qfloor_Z (Z.of_nat (S n - 1))); apply Qfloor_resp_le; exact Hpn).
  rewrite (nth_repeat_any c (S n) (Z.to_nat (Qfloor pos)) 0) by lia.
  destruct (Nat.lt_ge_cases (S (Z.to_nat (Qfloor pos))) (S n)) as [Hlt|Hge].
  - rewrite (nth_repeat_any c (S n) _ c) by exact Hlt. ring.
  - rewrite nth_overflow by (rewrite repeat_length; exact Hge). ring.
Qed.
