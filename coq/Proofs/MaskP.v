(* Directional grouping: C01's groups with the unselected pairs set to -1. *)
From SG Require Import Base.Prelude Model.Pairs Model.Groups Proofs.PairsP Proofs.GroupsP.
Local Open Scope Q_scope.

Theorem masked_group_nth edges D mask k d m :
  nth_error D k = Some d -> nth_error mask k = Some m ->
  nth_error (masked_groups edges D mask) k = Some (if m then group_of edges d else @None nat).
Proof.
  unfold masked_groups. revert mask k. induction D as [|x r IH]; intros mask k Hd Hm; [destruct k; discriminate|].
  destruct mask as [|b bs]; [destruct k; discriminate|]. destruct k as [|k]; cbn in *.
  - injection Hd as <-. injection Hm as <-. reflexivity.
  - apply IH; assumption.
Qed.

(* a pair belongs to class i of the directional variogram iff it is selected and its distance lies in class i *)
Theorem masked_class_iff edges d (m : bool) i :
  chain 0 edges -> (is_group i (if m then group_of edges d else @None nat) = true <-> m = true /\ in_class_i edges i d = true).
Proof.
  intro Hc. destruct m.
  - rewrite (is_group_in_class edges d i Hc). split; [intro H; split; [reflexivity|exact H]|intros [_ H]; exact H].
  - cbn. split; [discriminate|intros [H _]; discriminate].
Qed.
