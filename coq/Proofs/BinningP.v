(* C02: lag edges are well-formed for every binning method (all n, all distance lists). *)
From SG Require Import Base.Prelude Base.NumpyPrims Model.Binning Proofs.GroupsP Proofs.NumpyP.
Local Open Scope Q_scope.

Lemma inject_nat_pos n : (0 < n)%nat -> 0 < inject_Z (Z.of_nat n).
Proof. intro H. change 0 with (inject_Z 0). rewrite <- Zlt_Qlt. lia. Qed.

Lemma div_lt_div x y c : 0 < c -> x < y -> x / c < y / c.
Proof. intros Hc H. unfold Qdiv. apply Qmult_lt_compat_r; [apply Qinv_lt_0_compat; exact Hc|exact H]. Qed.
Lemma div_le_div x y c : 0 < c -> x <= y -> x / c <= y / c.
Proof.
  intros Hc H. unfold Qdiv. apply Qmult_le_compat_r; [exact H|].
  apply Qlt_le_weak. apply Qinv_lt_0_compat. exact Hc.
Qed.

(* ---------------- even ---------------- *)
Lemma linspace_length a b k : length (linspace_tail a b k) = k.
Proof. unfold linspace_tail. rewrite map_length, seq_length. reflexivity. Qed.

Lemma linspace_nth a b k i : (i < k)%nat ->
  nth i (linspace_tail a b k) 0 = a + (b - a) * inject_Z (Z.of_nat (S i)) / inject_Z (Z.of_nat k).
Proof.
  intro Hi. unfold linspace_tail.
  rewrite (nth_indep _ 0 ((fun j => a + (b - a) * inject_Z (Z.of_nat j) / inject_Z (Z.of_nat k)) 0%nat))
    by (rewrite map_length, seq_length; exact Hi).
  rewrite (map_nth (fun j => a + (b - a) * inject_Z (Z.of_nat j) / inject_Z (Z.of_nat k))).
  rewrite seq_nth by exact Hi. reflexivity.
Qed.

Theorem even_length n M : length (even n M) = n.
Proof. apply linspace_length. Qed.

(* i-th edge = M * (i+1) / n : n equal-width classes *)
Theorem even_nth n M i : (i < n)%nat ->
  nth i (even n M) 0 == M * inject_Z (Z.of_nat (S i)) / inject_Z (Z.of_nat n).
Proof. intro Hi. unfold even. rewrite linspace_nth by exact Hi. field. pose proof (inject_nat_pos n ltac:(lia)). lra. Qed.

Theorem even_last n M : (0 < n)%nat -> nth (n - 1) (even n M) 0 == M.
Proof.
  intro Hn. rewrite even_nth by lia. replace (S (n - 1)) with n by lia.
  field. pose proof (inject_nat_pos n Hn). lra.
Qed.

Theorem even_increasing n M i j : 0 < M -> (i < j)%nat -> (j < n)%nat ->
  nth i (even n M) 0 < nth j (even n M) 0.
Proof.
  intros HM Hij Hj. rewrite !even_nth by lia.
  pose proof (inject_nat_pos n ltac:(lia)) as Hn.
  assert (Hlt : inject_Z (Z.of_nat (S i)) < inject_Z (Z.of_nat (S j))) by (rewrite <- Zlt_Qlt; lia).
  apply div_lt_div; [exact Hn|]. nra.
Qed.

Theorem even_le_M n M i : 0 <= M -> (i < n)%nat -> nth i (even n M) 0 <= M.
Proof.
  intros HM Hi. rewrite even_nth by exact Hi.
  pose proof (inject_nat_pos n ltac:(lia)) as Hn.
  assert (Hle : inject_Z (Z.of_nat (S i)) <= inject_Z (Z.of_nat n)) by (rewrite <- Zle_Qle; lia).
  apply Qle_shift_div_r; [exact Hn|]. nra.
Qed.

Theorem even_width n M i : (S i < n)%nat ->
  nth (S i) (even n M) 0 - nth i (even n M) 0 == M / inject_Z (Z.of_nat n).
Proof.
  intro Hi. rewrite !even_nth by lia.
  replace (Z.of_nat (S (S i))) with (Z.of_nat (S i) + 1)%Z by lia. rewrite inject_Z_plus.
  field. pose proof (inject_nat_pos n ltac:(lia)). lra.
Qed.

(* ---------------- maxlag ---------------- *)
Lemma maxQ_from_ge m l : m <= maxQ_from m l /\ forall x, In x l -> x <= maxQ_from m l.
Proof.
  revert m. induction l as [|y r IH]; intro m; cbn [maxQ_from]; [split; [lra|intros x []]|].
  destruct (Qle_bool m y) eqn:E; qbool.
  - destruct (IH y) as [H1 H2]. split; [lra|]. intros x [<-|Hx]; [exact H1|apply H2; exact Hx].
  - destruct (IH m) as [H1 H2]. split; [exact H1|]. intros x [<-|Hx]; [lra|apply H2; exact Hx].
Qed.

Lemma maxQ_ge D mx : maxQ D = Some mx -> forall x, In x D -> x <= mx.
Proof.
  destruct D as [|y r]; [discriminate|]. cbn [maxQ]. intro H. injection H as <-.
  destruct (maxQ_from_ge y r) as [H1 H2]. intros x [<-|Hx]; [exact H1|apply H2; exact Hx].
Qed.

(* the effective maximum lag never exceeds the largest distance and honours an absolute maxlag *)
Theorem clip_le_max maxlag D M mx : clip_maxlag maxlag D = Some M -> maxQ D = Some mx -> M <= mx.
Proof.
  unfold clip_maxlag. intros H Hm. rewrite Hm in H. injection H as <-.
  destruct maxlag as [m|]; [|lra]. destruct (Qltb mx m) eqn:E; qbool; lra.
Qed.

Theorem clip_abs m D M mx : clip_maxlag (Some m) D = Some M -> maxQ D = Some mx ->
  (m <= mx -> M = m) /\ (mx < m -> M = mx).
Proof.
  unfold clip_maxlag. intros H Hm. rewrite Hm in H. injection H as <-.
  destruct (Qltb mx m) eqn:E; qbool; split; intro; try reflexivity; lra.
Qed.

Theorem clip_none D M : clip_maxlag None D = Some M -> maxQ D = Some M.
Proof. unfold clip_maxlag. destruct (maxQ D); [intro H; exact H|discriminate]. Qed.

Theorem resolve_relative v D mx : v < 1 -> maxQ D = Some mx ->
  resolve_maxlag (MValue v) D = Some (v * mx).
Proof. intros Hv Hm. cbn. replace (Qltb v 1) with true by (symmetry; qbool; exact Hv). rewrite Hm. reflexivity. Qed.

Theorem resolve_absolute v D : 1 <= v -> resolve_maxlag (MValue v) D = Some v.
Proof. intro Hv. cbn. replace (Qltb v 1) with false by (symmetry; qbool; exact Hv). reflexivity. Qed.

(* ---------------- uniform ---------------- *)
Lemma within_le M D x : In x (within M D) -> x <= M.
Proof. unfold within. rewrite filter_In. intros [_ H]. qbool. exact H. Qed.

Lemma frac_bounds i n : (1 <= i)%nat -> (i <= n)%nat ->
  0 <= inject_Z (Z.of_nat i) / inject_Z (Z.of_nat n) * 100 / 100 /\
  inject_Z (Z.of_nat i) / inject_Z (Z.of_nat n) * 100 / 100 <= 1.
Proof.
  intros H1 Hn. pose proof (inject_nat_pos n ltac:(lia)) as Hp.
  assert (Hi : 0 < inject_Z (Z.of_nat i)) by (apply inject_nat_pos; lia).
  assert (Hle : inject_Z (Z.of_nat i) <= inject_Z (Z.of_nat n)) by (rewrite <- Zle_Qle; lia).
  setoid_replace (inject_Z (Z.of_nat i) / inject_Z (Z.of_nat n) * 100 / 100)
    with (inject_Z (Z.of_nat i) / inject_Z (Z.of_nat n)) by (field; lra).
  split.
  - apply Qle_shift_div_l; [exact Hp|]. lra.
  - apply Qle_shift_div_r; [exact Hp|]. lra.
Qed.

(* every uniform edge is defined, and lies below the effective maximum lag *)
Theorem uniform_le_M n D M i e : within M D <> [] -> (i < n)%nat ->
  nth i (uniform n D M) None = Some e -> e <= M.
Proof.
  intros Hne Hi He. unfold uniform in He.
  rewrite (nth_indep _ None ((fun j => percentile (within M D) (inject_Z (Z.of_nat j) / inject_Z (Z.of_nat n) * 100)) 0%nat)) in He
    by (rewrite map_length, seq_length; exact Hi).
  rewrite (map_nth (fun j => percentile (within M D) (inject_Z (Z.of_nat j) / inject_Z (Z.of_nat n) * 100))) in He.
  rewrite seq_nth in He by exact Hi. unfold percentile in He.
  destruct (frac_bounds (1 + i) n ltac:(lia) ltac:(lia)) as [B0 B1].
  destruct (quantile_bounds _ _ _ B0 B1 He) as [_ Hu].
  pose proof (last_order_stat_in (within M D) Hne) as Hin. apply within_le in Hin. lra.
Qed.

Theorem uniform_defined n D M i : within M D <> [] -> (i < n)%nat ->
  exists e, nth i (uniform n D M) None = Some e.
Proof.
  intros Hne Hi. unfold uniform.
  rewrite (nth_indep _ None ((fun j => percentile (within M D) (inject_Z (Z.of_nat j) / inject_Z (Z.of_nat n) * 100)) 0%nat))
    by (rewrite map_length, seq_length; exact Hi).
  rewrite (map_nth (fun j => percentile (within M D) (inject_Z (Z.of_nat j) / inject_Z (Z.of_nat n) * 100))).
  unfold percentile, quantile. destruct (within M D); [congruence|eexists; reflexivity].
Qed.

Theorem uniform_monotone n D M i j e e' : (i <= j)%nat -> (j < n)%nat ->
  nth i (uniform n D M) None = Some e -> nth j (uniform n D M) None = Some e' -> e <= e'.
Proof.
  intros Hij Hj He He'. unfold uniform in *.
  set (f := fun k => percentile (within M D) (inject_Z (Z.of_nat k) / inject_Z (Z.of_nat n) * 100)) in *.
  rewrite (nth_indep _ None (f 0%nat)) in He by (rewrite map_length, seq_length; lia).
  rewrite (nth_indep _ None (f 0%nat)) in He' by (rewrite map_length, seq_length; lia).
  rewrite (map_nth f) in He, He'. rewrite seq_nth in He by lia. rewrite seq_nth in He' by lia.
  unfold f, percentile in He, He'.
  destruct (frac_bounds (1 + i) n ltac:(lia) ltac:(lia)) as [B0 B1].
  destruct (frac_bounds (1 + j) n ltac:(lia) ltac:(lia)) as [B0' B1'].
  refine (quantile_mono _ _ _ _ _ B0 _ B1' He He').
  pose proof (inject_nat_pos n ltac:(lia)) as Hp.
  assert (Hle : inject_Z (Z.of_nat (1 + i)) <= inject_Z (Z.of_nat (1 + j))) by (rewrite <- Zle_Qle; lia).
  setoid_replace (inject_Z (Z.of_nat (1 + i)) / inject_Z (Z.of_nat n) * 100 / 100)
    with (inject_Z (Z.of_nat (1 + i)) / inject_Z (Z.of_nat n)) by (field; lra).
  setoid_replace (inject_Z (Z.of_nat (1 + j)) / inject_Z (Z.of_nat n) * 100 / 100)
    with (inject_Z (Z.of_nat (1 + j)) / inject_Z (Z.of_nat n)) by (field; lra).
  apply div_le_div; [exact Hp|exact Hle].
Qed.

Theorem uniform_length n D M : length (uniform n D M) = n.
Proof. unfold uniform. rewrite map_length, seq_length. reflexivity. Qed.

(* ---------------- kmeans / ward edge construction ---------------- *)
Theorem mid_edges_length c : length (mid_edges c) = length c.
Proof. unfold mid_edges. generalize 0. induction c as [|x r IH]; intro lo; cbn; [reflexivity|]. rewrite IH. reflexivity. Qed.

(* for sorted centres >= 0 the edges are non-decreasing, and each edge is at most its centre *)
Lemma mid_edges_chain lo c : lo <= lo -> chain lo c -> chain lo (mid_edges_from lo c) /\
  Forall2 (fun e x => e <= x) (mid_edges_from lo c) c.
Proof.
  intros _. revert lo. induction c as [|x r IH]; intros lo Hc; cbn [mid_edges_from]; [split; [exact I|constructor]|].
  destruct Hc as [H1 H2]. destruct (IH x H2) as [C F].
  split.
  - cbn [chain]. split.
    + apply Qle_shift_div_l; lra.
    + apply (chain_weaken x); [apply Qle_shift_div_r; lra|exact C].
  - constructor; [apply Qle_shift_div_r; lra|exact F].
Qed.

Theorem mid_edges_sorted c : chain 0 c -> chain 0 (mid_edges c) /\ Forall2 (fun e x => e <= x) (mid_edges c) c.
Proof. intro Hc. apply mid_edges_chain; [lra|exact Hc]. Qed.

(* ---------------- rule-based: k equal classes between min and max of the distances within M ---- *)
Theorem auto_length k lo hi : length (auto_edges k lo hi) = k.
Proof. apply linspace_length. Qed.

Theorem auto_last k lo hi : (0 < k)%nat -> nth (k - 1) (auto_edges k lo hi) 0 == hi.
Proof.
  intro Hk. unfold auto_edges. rewrite linspace_nth by lia. replace (S (k - 1)) with k by lia.
  field. pose proof (inject_nat_pos k Hk). lra.
Qed.

Theorem auto_le_hi k lo hi i : lo <= hi -> (i < k)%nat -> nth i (auto_edges k lo hi) 0 <= hi.
Proof.
  intros Hl Hi. unfold auto_edges. rewrite linspace_nth by exact Hi.
  pose proof (inject_nat_pos k ltac:(lia)) as Hn.
  assert (Hle : inject_Z (Z.of_nat (S i)) <= inject_Z (Z.of_nat k)) by (rewrite <- Zle_Qle; lia).
  assert (E : lo + (hi - lo) * inject_Z (Z.of_nat (S i)) / inject_Z (Z.of_nat k) <= lo + (hi - lo)).
  { apply Qplus_le_r. apply Qle_shift_div_r; [exact Hn|]. nra. }
  lra.
Qed.

Theorem auto_monotone k lo hi i j : lo <= hi -> (i <= j)%nat -> (j < k)%nat ->
  nth i (auto_edges k lo hi) 0 <= nth j (auto_edges k lo hi) 0.
Proof.
  intros Hl Hij Hj. unfold auto_edges. rewrite !linspace_nth by lia.
  pose proof (inject_nat_pos k ltac:(lia)) as Hn.
  assert (Hle : inject_Z (Z.of_nat (S i)) <= inject_Z (Z.of_nat (S j))) by (rewrite <- Zle_Qle; lia).
  apply Qplus_le_r. apply div_le_div; [exact Hn|]. nra.
Qed.

(* lowering the maximum lag on truncated distance data: the pairs within the new, smaller maximum lag are all still stored *)
Theorem within_nested M1 M2 D : M2 <= M1 -> within M2 (within M1 D) = within M2 D.
Proof.
  intro H. unfold within. induction D as [|d r IH]; [reflexivity|]. cbn [filter].
  destruct (Qle_bool d M1) eqn:E1; cbn [filter].
  - rewrite IH. reflexivity.
  - destruct (Qle_bool d M2) eqn:E2; [|exact IH]. qbool. exfalso. lra.
Qed.
