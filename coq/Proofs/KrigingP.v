(* C07/C08/C09: neighbour selection, structure of the kriging system, algebra of any solution,
   bookkeeping of transform.  All sizes; arithmetic over Q. *)
From SG Require Import Base.Prelude Base.NumpyPrims Model.Pairs Model.Kriging Proofs.PairsP.
Local Open Scope Q_scope.

(* ================= neighbour search ================= *)
Fixpoint sorted_by (l : list (nat * Q)) : Prop :=
  match l with
  | [] => True
  | x :: r => (forall y, In y r -> snd x <= snd y) /\ sorted_by r
  end.

Lemma insert_by_perm x l : Permutation (x :: l) (insert_by x l).
Proof.
  induction l as [|y r IH]; cbn [insert_by]; [apply Permutation_refl|].
  destruct (Qle_bool (snd x) (snd y)); [apply Permutation_refl|].
  eapply perm_trans; [apply perm_swap|]. apply perm_skip. exact IH.
Qed.

Lemma sort_by_perm l : Permutation l (sort_by l).
Proof.
  induction l as [|x r IH]; [apply perm_nil|]. cbn [sort_by].
  eapply perm_trans; [apply perm_skip; exact IH|apply insert_by_perm].
Qed.

Lemma insert_by_sorted x l : sorted_by l -> sorted_by (insert_by x l).
Proof.
  induction l as [|y r IH]; intro Hs; cbn [insert_by].
  - cbn. split; [intros ? []|exact I].
  - destruct Hs as [Hy Hr]. destruct (Qle_bool (snd x) (snd y)) eqn:E; qbool.
    + cbn [sorted_by]. split; [|split; assumption].
      intros z [<-|Hz]; [exact E|]. specialize (Hy z Hz). lra.
    + cbn [sorted_by]. split; [|apply IH; exact Hr].
      intros z Hz. apply (Permutation_in _ (Permutation_sym (insert_by_perm x r))) in Hz.
      destruct Hz as [<-|Hz]; [lra|apply Hy; exact Hz].
Qed.

Lemma sort_by_sorted l : sorted_by (sort_by l).
Proof. induction l as [|x r IH]; [exact I|]. cbn [sort_by]. apply insert_by_sorted. exact IH. Qed.

Lemma In_skipn_in {A} k (l : list A) x : In x (skipn k l) -> In x l.
Proof. intro H. rewrite <- (firstn_skipn k l). apply in_or_app. right. exact H. Qed.
Lemma In_firstn_in {A} k (l : list A) x : In x (firstn k l) -> In x l.
Proof. intro H. rewrite <- (firstn_skipn k l). apply in_or_app. left. exact H. Qed.

Lemma sorted_by_firstn_le l k x y :
  sorted_by l -> In x (firstn k l) -> In y (skipn k l) -> snd x <= snd y.
Proof.
  revert k. induction l as [|a r IH]; intros k Hs Hx Hy.
  - rewrite firstn_nil in Hx. destruct Hx.
  - destruct k as [|k]; [destruct Hx|]. cbn [firstn skipn] in *. destruct Hs as [Ha Hr].
    destruct Hx as [<-|Hx].
    + apply Ha. apply (In_skipn_in k). exact Hy.
    + exact (IH k Hr Hx Hy).
Qed.

(* the candidates of the dense path are exactly the columns within range *)
Lemma In_combine_seq {A} (l : list A) k j x : In (j, x) (combine (seq k (length l)) l) <-> (k <= j)%nat /\ nth_error l (j - k) = Some x.
Proof.
  revert k. induction l as [|a r IH]; intro k; cbn [length seq combine].
  - split; [intros []|]. intros [_ H]. destruct (j - k)%nat; discriminate.
  - cbn [In]. rewrite IH. split.
    + intros [E|[H1 H2]].
      * injection E as <- <-. rewrite Nat.sub_diag. split; [lia|reflexivity].
      * split; [lia|]. replace (j - k)%nat with (S (j - S k)) by lia. exact H2.
    + intros [H1 H2]. destruct (Nat.eq_dec j k) as [->|Hne].
      * rewrite Nat.sub_diag in H2. injection H2 as <-. left. reflexivity.
      * right. split; [lia|]. replace (j - k)%nat with (S (j - S k)) in H2 by lia. exact H2.
Qed.

Theorem dense_candidates_spec row m j d :
  In (j, d) (dense_candidates row (Some m)) <-> nth_error row j = Some d /\ d <= m.
Proof.
  unfold dense_candidates. rewrite filter_In, In_combine_seq, Nat.sub_0_r. cbn [snd].
  rewrite Qle_bool_iff. split; [intros [[_ H] H2]; split; assumption|intros [H H2]; split; [split; [lia|exact H]|exact H2]].
Qed.

(* nearest-N: a subset of the candidates, min(N, #candidates) of them, none farther than a dropped one *)
Theorem closest_spec cands N :
  let sel := if Nat.ltb N (length cands) then firstn N (sort_by cands) else cands in
  closest cands N = map fst sel /\
  (forall e, In e sel -> In e cands) /\
  length sel = Nat.min N (length cands) /\
  (forall e e', In e sel -> In e' cands -> ~ In e' sel -> NoDup cands -> snd e <= snd e').
Proof.
  unfold closest. destruct (Nat.ltb N (length cands)) eqn:E; cbn zeta.
  - apply Nat.ltb_lt in E. split; [reflexivity|]. split; [|split].
    + intros e He. apply (Permutation_in _ (Permutation_sym (sort_by_perm cands))).
      apply (In_firstn_in N). exact He. 
    + rewrite firstn_length, <- (Permutation_length (sort_by_perm cands)). lia.
    + intros e e' He He' Hn Hnd.
      apply (Permutation_in _ (sort_by_perm cands)) in He'.
      rewrite <- (firstn_skipn N (sort_by cands)) in He'. apply in_app_iff in He'.
      destruct He' as [H|H]; [contradiction|].
      exact (sorted_by_firstn_le _ N e e' (sort_by_sorted cands) He H).
  - apply Nat.ltb_ge in E. split; [reflexivity|]. split; [intros e He; exact He|]. split; [lia|].
    intros e e' _ He' Hn _. contradiction.
Qed.

(* ================= the kriging system ================= *)
Lemma sumQ_cons x l : sumQ (x :: l) = x + sumQ l.
Proof. reflexivity. Qed.
Lemma dot_cons x r y s : dot (x :: r) (y :: s) = x * y + dot r s.
Proof. reflexivity. Qed.
Lemma dot_nil_l b : dot [] b = 0.
Proof. reflexivity. Qed.
Lemma dot_nil_r a : dot a [] = 0.
Proof. destruct a; reflexivity. Qed.

Lemma dot_app a1 a2 b1 b2 : length a1 = length b1 -> dot (a1 ++ a2) (b1 ++ b2) == dot a1 b1 + dot a2 b2.
Proof.
  revert b1. induction a1 as [|x r IH]; intros [|y s] Hl; try discriminate; cbn [app].
  - rewrite dot_nil_l. ring.
  - rewrite !dot_cons, (IH s) by (cbn in Hl; lia). ring.
Qed.

Lemma dot_ones n w : length w = n -> dot (repeat 1 n) w == sumQ w.
Proof.
  revert w. induction n as [|n IH]; intros [|x r] Hl; try discriminate; [reflexivity|].
  cbn [repeat]. rewrite dot_cons, sumQ_cons, (IH r) by (cbn in Hl; lia). ring.
Qed.

Lemma dot_single a b : dot [a] [b] == a * b.
Proof. rewrite dot_cons, dot_nil_l. ring. Qed.

(* the last row of the system says: the weights sum to one *)
Theorem last_row_sum n (w : list Q) m : length w = n -> dot (repeat 1 n ++ [0]) (w ++ [m]) == sumQ w.
Proof.
  intro Hl. rewrite dot_app by (rewrite repeat_length; lia). rewrite dot_single, (dot_ones n w Hl). ring.
Qed.

(* row i says: sum_j w_j gamma_ij + mu *)
Theorem data_row (g : list Q) (w : list Q) m : length g = length w -> dot (g ++ [1]) (w ++ [m]) == dot g w + m.
Proof. intro Hl. rewrite dot_app by exact Hl. rewrite dot_single. ring. Qed.

(* ================= algebra of any solution (C08) ================= *)
Lemma dot_shift w z c : length w = length z -> dot w (map (fun v => v + c) z) == dot w z + c * sumQ w.
Proof.
  revert z. induction w as [|x r IH]; intros [|y s] Hl; try discriminate; cbn [map].
  - rewrite dot_nil_l. cbn. ring.
  - rewrite !dot_cons, sumQ_cons, (IH s) by (cbn in Hl; lia). ring.
Qed.

(* weights sum to one => adding c to all observations adds c to the estimate *)
Theorem shift_invariance w z c : length w = length z -> sumQ w == 1 ->
  dot w (map (fun v => v + c) z) == dot w z + c.
Proof. intros Hl Hs. rewrite dot_shift by exact Hl. rewrite Hs. ring. Qed.

Lemma dot_scale_r w z k : dot w (map (fun v => k * v) z) == k * dot w z.
Proof.
  revert z. induction w as [|x r IH]; intros [|y s]; cbn [map]; rewrite ?dot_nil_l, ?dot_nil_r; try ring.
  rewrite !dot_cons, IH. ring.
Qed.

Lemma dot_scale_l w z k : dot (map (fun v => k * v) w) z == k * dot w z.
Proof.
  revert z. induction w as [|x r IH]; intros [|y s]; cbn [map]; rewrite ?dot_nil_l, ?dot_nil_r; try ring.
  rewrite !dot_cons, IH. ring.
Qed.

(* multiplying the observations by k multiplies the estimate by k *)
Theorem scale_estimate w z k : dot w (map (fun v => k * v) z) == k * dot w z.
Proof. exact (dot_scale_r w z k). Qed.

(* multiplying all semivariances by c: the same weights with mu*c solve the scaled system,
   and the variance is multiplied by c (c = k^2 when sill and nugget are scaled like a semivariance) *)
Theorem scale_row g w m c : length g = length w ->
  dot (map (fun v => c * v) g ++ [1]) (w ++ [c * m]) == c * (dot g w + m).
Proof.
  intro Hl. rewrite data_row by (rewrite map_length; exact Hl). rewrite dot_scale_l. ring.
Qed.

Theorem scale_variance g0 w m c :
  dot (map (fun v => c * v) g0) w + c * m == c * (dot g0 w + m).
Proof. rewrite dot_scale_l. ring. Qed.

(* a constant field is reproduced exactly *)
Theorem constant_field w n c : length w = n -> sumQ w == 1 -> dot w (repeat c n) == c.
Proof.
  intros Hl Hs.
  assert (G : forall (w : list Q) n, length w = n -> dot w (repeat c n) == c * sumQ w).
  { clear. induction w as [|x r IH]; intros [|n] Hl; try discriminate; [cbn; ring|].
    cbn [repeat]. rewrite dot_cons, sumQ_cons, (IH n) by (cbn in Hl; lia). ring. }
  rewrite (G w n Hl), Hs. ring.
Qed.

(* exactness: the unit vector e_j with mu = 0 solves the system whose right-hand side is column j of
   the matrix (target = observation j, zero nugget so gamma(0) = 0 on the diagonal) *)
Fixpoint unit (n j : nat) : list Q :=
  match n with
  | O => []
  | S n' => match j with O => 1 :: repeat 0 n' | S j' => 0 :: unit n' j' end
  end.

Lemma dot_zeros r n : dot r (repeat 0 n) == 0.
Proof.
  revert n. induction r as [|y s IH]; intros [|n]; cbn [repeat]; rewrite ?dot_nil_l, ?dot_nil_r; try reflexivity.
  rewrite dot_cons, IH. ring.
Qed.

Lemma dot_unit g : forall n j, length g = n -> (j < n)%nat -> dot g (unit n j) == nth j g 0.
Proof.
  induction g as [|x r IH]; intros n j Hl Hj; [cbn in Hl; lia|].
  destruct n as [|n]; [lia|]. cbn [unit]. destruct j as [|j].
  - rewrite dot_cons, dot_zeros. cbn [nth]. ring.
  - rewrite dot_cons, (IH n j) by (cbn in Hl; lia). cbn [nth]. ring.
Qed.

Lemma sumQ_zeros n : sumQ (repeat 0 n) == 0.
Proof. induction n as [|n IH]; cbn [repeat]; [reflexivity|]. rewrite sumQ_cons, IH. ring. Qed.

Lemma sumQ_unit n j : (j < n)%nat -> sumQ (unit n j) == 1.
Proof.
  revert j. induction n as [|n IH]; intros j Hj; [lia|]. cbn [unit]. destruct j as [|j]; rewrite sumQ_cons.
  - rewrite sumQ_zeros. ring.
  - rewrite IH by lia. ring.
Qed.

Lemma unit_length n j : length (unit n j) = n.
Proof. revert j. induction n as [|n IH]; intro j; [reflexivity|]. cbn [unit]. destruct j; cbn [length]; [rewrite repeat_length|rewrite IH]; reflexivity. Qed.

(* if the right-hand side of row i is gamma_ij (the target IS observation j), then (e_j, mu = 0)
   satisfies every data row and the unit-sum row; its estimate is z_j, its variance gamma_jj *)
Theorem exact_solution (G : list (list Q)) (z : list Q) n j :
  (j < n)%nat -> length z = n -> (forall row, In row G -> length row = n) ->
  (forall row, In row G -> dot (row ++ [1]) (unit n j ++ [0]) == nth j row 0) /\
  dot (repeat 1 n ++ [0]) (unit n j ++ [0]) == 1 /\
  dot (unit n j) z == nth j z 0.
Proof.
  intros Hj Hz Hrows. split; [|split].
  - intros row Hin. rewrite data_row by (rewrite unit_length; apply Hrows; exact Hin).
    rewrite (dot_unit row n j (Hrows row Hin) Hj). ring.
  - rewrite (last_row_sum n) by apply unit_length. apply sumQ_unit. exact Hj.
  - assert (C : forall a b : list Q, dot a b == dot b a).
    { intros a. induction a as [|x r IH]; intros [|y t]; rewrite ?dot_nil_l, ?dot_nil_r; try reflexivity.
      rewrite !dot_cons, (IH t). ring. }
    rewrite C. apply dot_unit; assumption.
Qed.

(* uniqueness transports any solution: pointwise equal vectors give equal estimates *)
Lemma dot_ext a a' b : Forall2 Qeq a a' -> dot a b == dot a' b.
Proof.
  intro H. revert b. induction H as [|x x' r r' Hx Hr IH]; intros [|y t]; try reflexivity.
  rewrite !dot_cons, Hx, (IH t). reflexivity.
Qed.

Theorem exactness_under_uniqueness (w : list Q) z n j :
  (j < n)%nat -> length z = n -> Forall2 Qeq w (unit n j) -> dot w z == nth j z 0.
Proof.
  intros Hj Hz Hw. rewrite (dot_ext w (unit n j) z Hw).
  destruct (exact_solution [] z n j Hj Hz ltac:(intros ? [])) as (_ & _ & H). exact H.
Qed.

(* ================= bookkeeping of transform (C07, C09) ================= *)
Definition is_none {A} (o : option A) : bool := match o with None => true | Some _ => false end.

Lemma tstep_lengths s r : length (zs (tstep s r)) = S (length (zs s)) /\ length (sigmas (tstep s r)) = S (length (sigmas s)).
Proof. destruct r as [[z sg]|[| |]]; cbn [tstep zs sigmas]; rewrite !app_length; cbn [length]; lia. Qed.

Definition tinv (s : tstate) : Prop :=
  length (zs s) = length (sigmas s) /\
  (forall i, is_none (nth i (zs s) None) = is_none (nth i (sigmas s) None)) /\
  (n_nopoints s + n_singular s + n_ill s)%nat = length (filter is_none (zs s)).

Lemma nth_app_one {A} (l : list A) x d i :
  nth i (l ++ [x]) d = if (i <? length l)%nat then nth i l d else if (i =? length l)%nat then x else d.
Proof.
  destruct (Nat.ltb_spec i (length l)); [apply app_nth1; assumption|].
  rewrite app_nth2 by assumption. destruct (Nat.eqb_spec i (length l)) as [->|Hne].
  - rewrite Nat.sub_diag. reflexivity.
  - destruct (i - length l)%nat eqn:E; [lia|]. cbn. destruct n; reflexivity.
Qed.

Lemma tstep_inv s r : tinv s -> tinv (tstep s r).
Proof.
  intros (Hl & Hn & Hc). unfold tinv.
  destruct r as [[z sg]|[| |]]; cbn [tstep zs sigmas n_nopoints n_singular n_ill];
    rewrite !app_length, !filter_app; cbn [length filter is_none]; rewrite ?app_length; cbn [length];
    (split; [lia|split; [|lia]]); intro i; rewrite !nth_app_one, <- Hl;
    destruct (i <? length (zs s))%nat; try apply Hn; destruct (i =? length (zs s))%nat; reflexivity.
Qed.

Theorem transform_inv rs : tinv (transform rs).
Proof.
  unfold transform.
  assert (G : forall s, tinv s -> tinv (fold_left tstep rs s)).
  { induction rs as [|r rs IH]; intros s Hs; [exact Hs|]. cbn [fold_left]. apply IH. apply tstep_inv. exact Hs. }
  apply G. unfold tinv, tinit. cbn. repeat split; try reflexivity; intro i; destruct i; reflexivity.
Qed.

(* the i-th estimate and the i-th variance come from the i-th target, whatever precedes it *)
Definition res_z (r : target_result) : option Q := match r with inl (z, _) => Some z | inr _ => None end.
Definition res_s (r : target_result) : option Q := match r with inl (_, s) => Some s | inr _ => None end.

Lemma fold_tstep_zs rs : forall s, zs (fold_left tstep rs s) = zs s ++ map res_z rs /\
                                    sigmas (fold_left tstep rs s) = sigmas s ++ map res_s rs.
Proof.
  induction rs as [|r rs IH]; intro s; cbn [fold_left map]; [rewrite !app_nil_r; split; reflexivity|].
  destruct (IH (tstep s r)) as [H1 H2]. rewrite H1, H2.
  destruct r as [[z sg]|[| |]]; cbn [tstep zs sigmas res_z res_s]; rewrite <- !app_assoc; split; reflexivity.
Qed.

Theorem transform_aligned rs : zs (transform rs) = map res_z rs /\ sigmas (transform rs) = map res_s rs.
Proof. unfold transform. destruct (fold_tstep_zs rs tinit) as [H1 H2]. rewrite H1, H2. split; reflexivity. Qed.

(* batching: results of a concatenated batch = concatenation of the results (C09) *)
Theorem transform_app rs1 rs2 :
  zs (transform (rs1 ++ rs2)) = zs (transform rs1) ++ zs (transform rs2) /\
  sigmas (transform (rs1 ++ rs2)) = sigmas (transform rs1) ++ sigmas (transform rs2).
Proof.
  destruct (transform_aligned (rs1 ++ rs2)) as [A1 A2]. destruct (transform_aligned rs1) as [B1 B2].
  destruct (transform_aligned rs2) as [C1 C2]. rewrite A1, A2, B1, B2, C1, C2, !map_app. split; reflexivity.
Qed.

(* reordering the targets reorders the results the same way *)
Theorem transform_perm rs rs' : Permutation rs rs' ->
  Permutation (combine (zs (transform rs)) (sigmas (transform rs))) (combine (zs (transform rs')) (sigmas (transform rs'))).
Proof.
  intro Hp. destruct (transform_aligned rs) as [A1 A2]. destruct (transform_aligned rs') as [B1 B2].
  rewrite A1, A2, B1, B2.
  assert (E : forall l, combine (map res_z l) (map res_s l) = map (fun r => (res_z r, res_s r)) l).
  { induction l as [|x l IH]; cbn; [reflexivity|]. rewrite IH. reflexivity. }
  rewrite !E. apply Permutation_map. exact Hp.
Qed.

(* ================= permutation of the neighbourhood (C09) ================= *)
Lemma dot_perm (wz wz' : list (Q * Q)) : Permutation wz wz' ->
  sumQ (map (fun p => fst p * snd p) wz) == sumQ (map (fun p => fst p * snd p) wz').
Proof.
  intro Hp. induction Hp as [|x l l' Hp IH|x y l|l l' l'' H1 IH1 H2 IH2]; cbn [map].
  - reflexivity.
  - rewrite !sumQ_cons, IH. reflexivity.
  - rewrite !sumQ_cons. ring.
  - rewrite IH1. exact IH2.
Qed.

(* estimate and variance only depend on the multiset of (weight, value) resp. (weight, gamma_i0) pairs *)
Theorem estimate_perm w z w' z' : length w = length z -> length w' = length z' ->
  Permutation (combine w z) (combine w' z') -> dot w z == dot w' z'.
Proof. intros _ _ Hp. unfold dot. apply dot_perm. exact Hp. Qed.
