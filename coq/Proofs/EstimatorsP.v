(* C10 (order-statistic estimators): Dowd and Genton depend on the multiset of their input only, and scale
   with the square of a factor applied to the input.  The core fact: sorting lists that are permutations of
   each other (or pointwise ==) gives pointwise == lists, for the setoid Q. *)
From SG Require Import Base.Prelude Base.NumpyPrims Model.Pairs Model.Estimators
  Proofs.GroupsP Proofs.NumpyP Proofs.InvarianceP.
Local Open Scope Q_scope.

Notation eqlQ := (Forall2 Qeq).

Lemma eqlQ_refl l : eqlQ l l.
Proof. induction l; constructor; [reflexivity|assumption]. Qed.

Lemma eqlQ_sym l l' : eqlQ l l' -> eqlQ l' l.
Proof. induction 1; constructor; [symmetry; assumption|assumption]. Qed.

Lemma eqlQ_trans l1 l2 l3 : eqlQ l1 l2 -> eqlQ l2 l3 -> eqlQ l1 l3.
Proof.
  intro H. revert l3. induction H as [|x y l l' Hxy H IH]; intros l3 H3; inv H3; constructor.
  - etransitivity; eassumption.
  - apply IH. assumption.
Qed.

Lemma eqlQ_length l l' : eqlQ l l' -> length l = length l'.
Proof. induction 1; cbn; congruence. Qed.

Lemma Qle_bool_compat x x' y y' : x == x' -> y == y' -> Qle_bool x y = Qle_bool x' y'.
Proof.
  intros Hx Hy. destruct (Qle_bool x y) eqn:E, (Qle_bool x' y') eqn:E'; try reflexivity; qbool; exfalso.
  - rewrite Hx, Hy in E. lra.
  - rewrite Hx, Hy in E. lra.
Qed.

(* ---- insertion respects == and commutes up to == ---- *)
Lemma insert_compat x x' s s' : x == x' -> eqlQ s s' -> eqlQ (insert x s) (insert x' s').
Proof.
  intros Hx H. induction H as [|y y' r r' Hy H IH]; cbn [insert].
  - constructor; [exact Hx|constructor].
  - rewrite (Qle_bool_compat x x' y y' Hx Hy). destruct (Qle_bool x' y').
    + constructor; [exact Hx|]. constructor; assumption.
    + constructor; assumption.
Qed.

Lemma insert_comm x y s : eqlQ (insert x (insert y s)) (insert y (insert x s)).
Proof.
  induction s as [|z r IH]; cbn [insert].
  - destruct (Qle_bool x y) eqn:Exy, (Qle_bool y x) eqn:Eyx; try apply eqlQ_refl; qbool.
    + assert (x == y) by lra. repeat constructor; [assumption|symmetry; assumption].
    + exfalso. lra.
  - destruct (Qle_bool y z) eqn:Eyz, (Qle_bool x z) eqn:Exz; cbn [insert].
    + destruct (Qle_bool x y) eqn:Exy, (Qle_bool y x) eqn:Eyx; cbn [insert]; rewrite ?Eyz, ?Exz; try apply eqlQ_refl; qbool.
      * assert (x == y) by lra. constructor; [assumption|]. constructor; [symmetry; assumption|apply eqlQ_refl].
      * exfalso. lra.
    + destruct (Qle_bool x y) eqn:Exy; cbn [insert]; rewrite ?Eyz, ?Exz; try apply eqlQ_refl; qbool. exfalso. lra.
    + destruct (Qle_bool y x) eqn:Eyx; cbn [insert]; rewrite ?Eyz, ?Exz; try apply eqlQ_refl; qbool. exfalso. lra.
    + rewrite ?Eyz, ?Exz. constructor; [reflexivity|exact IH].
Qed.

Theorem sortQ_eqlQ l l' : eqlQ l l' -> eqlQ (sortQ l) (sortQ l').
Proof. induction 1; cbn [sortQ]; [constructor|]. apply insert_compat; assumption. Qed.

Theorem sortQ_perm_eq l l' : Permutation l l' -> eqlQ (sortQ l) (sortQ l').
Proof.
  induction 1 as [|x l l' Hp IH|x y l|l l' l'' H1 IH1 H2 IH2]; cbn [sortQ].
  - constructor.
  - apply insert_compat; [reflexivity|exact IH].
  - apply insert_comm.
  - eapply eqlQ_trans; eassumption.
Qed.

(* ---- the interpolated order statistic respects pointwise == ---- *)
Lemma nth_eqlQ s s' : eqlQ s s' -> forall i d d', d == d' -> nth i s d == nth i s' d'.
Proof.
  induction 1 as [|x y r r' Hxy H IH]; intros i d d' Hd; destruct i; cbn [nth]; try assumption.
  apply IH. exact Hd.
Qed.

Lemma interp_eqlQ s s' pos : eqlQ s s' -> interp s pos == interp s' pos.
Proof.
  intro H. unfold interp. cbv zeta.
  pose proof (nth_eqlQ s s' H (Z.to_nat (Qfloor pos)) 0 0 (Qeq_refl 0)) as Ha.
  pose proof (nth_eqlQ s s' H (S (Z.to_nat (Qfloor pos))) _ _ Ha) as Hb.
  set (a := nth (Z.to_nat (Qfloor pos)) s 0) in *. set (a' := nth (Z.to_nat (Qfloor pos)) s' 0) in *.
  set (b := nth (S (Z.to_nat (Qfloor pos))) s a) in *. set (b' := nth (S (Z.to_nat (Qfloor pos))) s' a') in *.
  rewrite Ha, Hb. reflexivity.
Qed.

Theorem quantile_eqlQ l l' p : eqlQ l l' -> optQeq (quantile l p) (quantile l' p).
Proof.
  intro H. pose proof (eqlQ_length _ _ H) as Hl. unfold quantile.
  destruct l as [|a r], l' as [|a' r']; try discriminate; [exact I|].
  cbn [optQeq]. rewrite Hl. apply interp_eqlQ. apply sortQ_eqlQ. exact H.
Qed.

Theorem quantile_perm l l' p : Permutation l l' -> optQeq (quantile l p) (quantile l' p).
Proof.
  intro H. pose proof (Permutation_length H) as Hl. unfold quantile.
  destruct l as [|a r], l' as [|a' r']; try discriminate; [exact I|].
  cbn [optQeq]. rewrite Hl. apply interp_eqlQ. apply sortQ_perm_eq. exact H.
Qed.

(* ---- Dowd: the median of the class, a function of the multiset ---- *)
Theorem dowd_perm l l' : Permutation l l' -> optQeq (dowd l) (dowd l').
Proof.
  intro H. unfold dowd, median. pose proof (quantile_perm l l' (1 # 2) H) as Hq.
  destruct (quantile l (1 # 2)) as [m|], (quantile l' (1 # 2)) as [m'|]; cbn [optQeq] in *; try contradiction; [|exact I].
  rewrite Hq. reflexivity.
Qed.

(* ---- Genton: a quantile of all pairwise absolute differences of the class ---- *)
Lemma absdiff_sym a b : Qabs (a - b) = Qabs (b - a).
Proof.
  destruct a as [an ad], b as [bn bd]. unfold Qabs, Qminus, Qplus, Qopp. cbn [Qnum Qden].
  f_equal; [lia|apply Pos.mul_comm].
Qed.

Theorem genton_perm l l' : Permutation l l' -> optQeq (genton l) (genton l').
Proof.
  intro H. unfold genton. pose proof (Permutation_length H) as Hl. unfold nQ. rewrite <- Hl.
  destruct (length l <? 2)%nat; [exact I|].
  set (p := if (500 <=? length l)%nat then _ else _).
  pose proof (quantile_perm _ _ p (pdist_perm (fun a b => Qabs (a - b)) l l' absdiff_sym H)) as Hq.
  destruct (quantile (pdist _ l) p) as [v|], (quantile (pdist _ l') p) as [v'|]; cbn [optQeq] in *; try contradiction; [|exact I].
  rewrite Hq. reflexivity.
Qed.

(* ---- homogeneity: a non-negative factor c on the input ---- *)
Lemma insert_scale c x s : 0 < c -> insert (c * x) (map (Qmult c) s) = map (Qmult c) (insert x s).
Proof.
  intro Hc. induction s as [|y r IH]; cbn [insert map]; [reflexivity|].
  assert (E : Qle_bool (c * x) (c * y) = Qle_bool x y).
  { destruct (Qle_bool x y) eqn:E; qbool; nra. }
  rewrite E. destruct (Qle_bool x y); cbn [map]; [reflexivity|]. rewrite IH. reflexivity.
Qed.

Lemma sortQ_scale_pos c l : 0 < c -> sortQ (map (Qmult c) l) = map (Qmult c) (sortQ l).
Proof. intro Hc. induction l as [|x r IH]; cbn [sortQ map]; [reflexivity|]. rewrite IH. apply insert_scale. exact Hc. Qed.

Lemma nth_map_eq (f : Q -> Q) s : forall i d d', d' == f d -> (forall a b, a == b -> f a == f b) -> nth i (map f s) d' == f (nth i s d).
Proof.
  induction s as [|x r IH]; intros i d d' Hd Hf; destruct i; cbn [nth map]; try exact Hd; try reflexivity.
  apply IH; assumption.
Qed.

Lemma interp_scale c s pos : interp (map (Qmult c) s) pos == c * interp s pos.
Proof.
  unfold interp. cbv zeta.
  assert (Hf : forall a b, a == b -> c * a == c * b) by (intros a b E; rewrite E; reflexivity).
  pose proof (nth_map_eq (Qmult c) s (Z.to_nat (Qfloor pos)) 0 0 ltac:(ring) Hf) as Ha.
  pose proof (nth_map_eq (Qmult c) s (S (Z.to_nat (Qfloor pos))) (nth (Z.to_nat (Qfloor pos)) s 0) _ Ha Hf) as Hb.
  set (a := nth (Z.to_nat (Qfloor pos)) s 0) in *. set (a' := nth (Z.to_nat (Qfloor pos)) (map (Qmult c) s) 0) in *.
  set (b := nth (S (Z.to_nat (Qfloor pos))) s a) in *. set (b' := nth (S (Z.to_nat (Qfloor pos))) (map (Qmult c) s) a') in *.
  rewrite Ha, Hb. ring.
Qed.

Lemma all_zero_eqlQ l l' : length l = length l' -> Forall (fun v => v == 0) l -> Forall (fun v => v == 0) l' -> eqlQ l l'.
Proof.
  revert l'. induction l as [|x r IH]; intros [|y r'] Hl H H'; try discriminate; constructor; inv H; inv H'.
  - etransitivity; [eassumption|symmetry; assumption].
  - apply IH; [cbn in Hl; congruence|assumption|assumption].
Qed.

Lemma sortQ_scale c l : 0 <= c -> eqlQ (sortQ (map (Qmult c) l)) (map (Qmult c) (sortQ l)).
Proof.
  intro Hc. destruct (Qlt_le_dec 0 c) as [Hpos|Hz].
  - rewrite sortQ_scale_pos by exact Hpos. apply eqlQ_refl.
  - assert (E : c == 0) by lra.
    assert (A : forall m, Forall (fun v => v == 0) (map (Qmult c) m)).
    { intro m. apply Forall_forall. intros v Hv. apply in_map_iff in Hv. destruct Hv as (w & <- & _). rewrite E. ring. }
    apply all_zero_eqlQ.
    + rewrite sortQ_length, !map_length, sortQ_length. reflexivity.
    + eapply Permutation_Forall; [apply sortQ_perm|apply A].
    + apply A.
Qed.

Theorem quantile_scale c l p : 0 <= c ->
  optQeq (quantile (map (Qmult c) l) p) (option_map (Qmult c) (quantile l p)).
Proof.
  intro Hc. unfold quantile. destruct l as [|x r]; [exact I|]. cbn [map option_map optQeq].
  change (c * x :: map (Qmult c) r) with (map (Qmult c) (x :: r)). rewrite map_length.
  rewrite (interp_eqlQ _ _ _ (sortQ_scale c (x :: r) Hc)). apply interp_scale.
Qed.

(* multiplying the values by k multiplies every |difference| by |k| (InvarianceP.scale_diff), and then: *)
Theorem dowd_scale k l :
  optQeq (dowd (map (Qmult (Qabs k)) l)) (option_map (fun g => k * k * g) (dowd l)).
Proof.
  unfold dowd, median. pose proof (quantile_scale (Qabs k) l (1 # 2) (Qabs_nonneg k)) as Hq.
  destruct (quantile l (1 # 2)) as [m|]; cbn [option_map] in *.
  - destruct (quantile (map (Qmult (Qabs k)) l) (1 # 2)) as [m'|]; cbn [optQeq] in *; [|contradiction].
    rewrite Hq. assert (Hk : Qabs k * Qabs k == k * k).
    { rewrite <- Qabs_Qmult. apply Qabs_pos. nra. }
    setoid_replace (Qabs k * m * (Qabs k * m)) with ((Qabs k * Qabs k) * (m * m)) by ring.
    rewrite Hk. field.
  - destruct (quantile (map (Qmult (Qabs k)) l) (1 # 2)); cbn [optQeq] in *; [contradiction|exact I].
Qed.

Lemma pdist_map {A B C} (g : A -> B) (f : B -> B -> C) (l : list A) :
  pdist f (map g l) = pdist (fun a b => f (g a) (g b)) l.
Proof. induction l as [|x r IH]; cbn [pdist map]; [reflexivity|]. rewrite IH, map_map. reflexivity. Qed.

Lemma pdist_eqlQ {A} (f g : A -> A -> Q) (l : list A) : (forall a b, f a b == g a b) -> eqlQ (pdist f l) (pdist g l).
Proof.
  intro H. induction l as [|x r IH]; cbn [pdist]; [constructor|].
  apply Forall2_app; [|exact IH]. clear IH. induction r as [|y r' IH]; cbn [map]; constructor; [apply H|exact IH].
Qed.

Lemma pdist_map_out {A} (f : A -> A -> Q) (c : Q) (l : list A) :
  pdist (fun a b => c * f a b) l = map (Qmult c) (pdist f l).
Proof. induction l as [|x r IH]; cbn [pdist]; [reflexivity|]. rewrite map_app, IH, map_map. reflexivity. Qed.

Theorem genton_scale k l :
  optQeq (genton (map (Qmult (Qabs k)) l)) (option_map (fun g => k * k * g) (genton l)).
Proof.
  unfold genton. unfold nQ. rewrite map_length.
  destruct (length l <? 2)%nat; [exact I|].
  set (p := if (500 <=? length l)%nat then _ else _).
  set (c := Qabs k).
  assert (Hy : eqlQ (pdist (fun a b => Qabs (a - b)) (map (Qmult c) l)) (map (Qmult c) (pdist (fun a b => Qabs (a - b)) l))).
  { rewrite pdist_map, <- pdist_map_out. apply pdist_eqlQ. intros a b.
    setoid_replace (c * a - c * b) with (c * (a - b)) by ring. rewrite Qabs_Qmult.
    unfold c. rewrite (Qabs_pos (Qabs k)) by apply Qabs_nonneg. reflexivity. }
  pose proof (quantile_eqlQ _ _ p Hy) as H1.
  pose proof (quantile_scale c (pdist (fun a b => Qabs (a - b)) l) p (Qabs_nonneg k)) as H2.
  destruct (quantile (pdist (fun a b => Qabs (a - b)) l) p) as [v|]; cbn [option_map] in *.
  - destruct (quantile (map (Qmult c) (pdist (fun a b => Qabs (a - b)) l)) p) as [v2|]; cbn [optQeq] in H2; [|contradiction].
    destruct (quantile (pdist (fun a b => Qabs (a - b)) (map (Qmult c) l)) p) as [v1|]; cbn [optQeq] in *; [|contradiction].
    rewrite H1, H2. assert (Hk : c * c == k * k).
    { unfold c. rewrite <- Qabs_Qmult. apply Qabs_pos. nra. }
    setoid_replace ((1 # 2) * ((2219 # 1000) * (c * v)) * ((2219 # 1000) * (c * v)))
      with ((c * c) * ((1 # 2) * ((2219 # 1000) * v) * ((2219 # 1000) * v))) by ring.
    rewrite Hk. reflexivity.
  - destruct (quantile (map (Qmult c) (pdist (fun a b => Qabs (a - b)) l)) p); cbn [optQeq] in H2; [contradiction|].
    destruct (quantile (pdist (fun a b => Qabs (a - b)) (map (Qmult c) l)) p); cbn [optQeq] in *; [contradiction|exact I].
Qed.

(* non-vacuity: Dowd and Genton of a concrete class, before and after reordering / scaling *)
Example dowd_example : (exists g, dowd [3; 1; 2] = Some g /\ g == (1099 # 500) * (2 * 2) / 2) /\ optQeq (dowd [1; 2; 3]) (dowd [3; 1; 2]).
Proof.
  split; [eexists; split; [vm_compute; reflexivity|reflexivity]|].
  apply dowd_perm. apply Permutation_sym. apply (Permutation_cons_append [1; 2] 3).
Qed.

Example genton_example : exists g, genton [0; 1; 3; 7] = Some g /\ 0 < g.
Proof. eexists. split; [vm_compute; reflexivity|]. reflexivity. Qed.
