(* Condensed (scipy pdist / squareform) pair enumeration.  Executable model, no proofs here. *)
From SG Require Import Base.Prelude.

(* pdist over the point list: f applied to every unordered pair, row-major upper triangle *)
Fixpoint pdist {A B} (f : A -> A -> B) (l : list A) : list B :=
  match l with
  | [] => []
  | x :: xs => map (f x) xs ++ pdist f xs
  end.

(* the index pairs (i,j), i<j<n, in the order of the condensed vector *)
Definition pairs (n : nat) : list (nat * nat) := pdist pair (seq 0 n).

(* scipy's closed form for the position of (i,j), i<j, in the condensed vector of n points *)
Definition cidx (n i j : nat) : nat := n * i - (i * (i + 1)) / 2 + (j - i - 1).

(* squareform: condensed vector -> full symmetric matrix with zero diagonal *)
Definition sq_entry {A} (zero : A) (c : list A) (n i j : nat) : A :=
  if Nat.eqb i j then zero
  else if Nat.ltb i j then nth (cidx n i j) c zero else nth (cidx n j i) c zero.

Definition squareform {A} (zero : A) (c : list A) (n : nat) : list (list A) :=
  map (fun i => map (fun j => sq_entry zero c n i j) (seq 0 n)) (seq 0 n).

(* positions (0-based) of the elements satisfying p *)
Fixpoint positions_from {A} (p : A -> bool) (k : nat) (l : list A) : list nat :=
  match l with
  | [] => []
  | x :: r => if p x then k :: positions_from p (S k) r else positions_from p (S k) r
  end.
Definition positions {A} (p : A -> bool) (l : list A) : list nat := positions_from p 0 l.

(* numpy fancy indexing  l[idx]  (out-of-range indices are dropped: the models never produce them) *)
Fixpoint take_at {A} (l : list A) (idx : list nat) : list A :=
  match idx with
  | [] => []
  | k :: r => match nth_error l k with Some x => x :: take_at l r | None => take_at l r end
  end.
