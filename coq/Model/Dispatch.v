(* Wire-level dispatch: function id -> decoder -> model function -> encoder.
   The harness reads the `fn_*` table below (single source of the ids).  Glue only. *)
From SG Require Import Base.Prelude Base.Val Base.NumpyPrims Model.Pairs Model.Groups Model.Estimators Model.Sparse Model.Binning Model.Kriging Model.Jackknife Model.SpaceTime Model.SumModels Model.VarioSM Model.Fit Model.Alias.

Definition fn_pairs : Z := 1.
Definition fn_groups : Z := 2.
Definition fn_class_positions : Z := 3.
Definition fn_bin_count : Z := 4.
Definition fn_cidx : Z := 5.
Definition fn_matheron : Z := 6.
Definition fn_dowd : Z := 7.
Definition fn_genton : Z := 8.
Definition fn_quantile : Z := 9.
Definition fn_tri_lower : Z := 10.
Definition fn_sparse_diffs : Z := 11.
Definition fn_sort : Z := 12.
Definition fn_resolve_maxlag : Z := 13.
Definition fn_clip_maxlag : Z := 14.
Definition fn_even : Z := 15.
Definition fn_uniform : Z := 16.
Definition fn_mid_edges : Z := 17.
Definition fn_auto_edges : Z := 18.
Definition fn_find_closest_dense : Z := 19.
Definition fn_closest : Z := 20.
Definition fn_ok_matrix : Z := 21.
Definition fn_estimate : Z := 22.
Definition fn_variance : Z := 23.
Definition fn_transform : Z := 24.
Definition fn_squareform : Z := 25.
Definition fn_mse : Z := 26.
Definition fn_mae : Z := 27.
Definition fn_delete : Z := 28.
Definition fn_st_diff : Z := 29.
Definition fn_groups_oc : Z := 30.
Definition fn_st_cells : Z := 31.
Definition fn_fit_samples : Z := 32.
Definition fn_slice_bounds : Z := 33.
Definition fn_split_args : Z := 34.
Definition fn_masked_groups : Z := 35.
Definition fn_vario_run : Z := 36.
Definition fn_parameters : Z := 37.
Definition fn_krige_args : Z := 38.
Definition fn_fit_inputs : Z := 39.
Definition fn_bounds_sum : Z := 40.
Definition fn_percentile : Z := 41.
Definition fn_alias_run : Z := 42.

Definition getAop (v : val) : option aop :=
  match v with
  | VL [VZ 0%Z; c; x] => do c <- getN c; do x <- getN x; Some (Construct c x)
  | VL [VZ 1%Z; x] => do x <- getN x; Some (Alias.SetValues x)
  | VL [VZ 2%Z; l; x] => do l <- getN l; do x <- getN x; Some (ExtWrite l x)
  | VL [VZ 3%Z] => Some GetBins
  | VL [VZ 4%Z] => Some Clone
  | VL [VZ 5%Z] => Some Observe
  | _ => None end.

(* ---- wire encoding of the C06 state machine ---- *)
Definition getBinf (v : val) : option binf :=
  match v with
  | VL [VZ 0%Z] => Some BEven | VL [VZ 1%Z] => Some BUniform | VL [VZ 2%Z] => Some BKmeans | VL [VZ 3%Z] => Some BWard
  | VL [VZ 4%Z; r] => do k <- getN r; Some (BAuto k)
  | VL [VZ 5%Z; e] => do k <- getN e; Some (BCustom k)
  | _ => None end.
Definition getMl (v : val) : option mlform :=
  match v with
  | VL [VZ 0%Z] => Some MLNone | VL [VZ 1%Z] => Some MLMedian | VL [VZ 2%Z] => Some MLMean
  | VL [VZ 3%Z; x] => do k <- getN x; Some (MLRel k)
  | VL [VZ 4%Z; x] => do k <- getN x; Some (MLAbs k)
  | VL [VZ 5%Z; x] => do k <- getN x; Some (MLOfEdges k)
  | _ => None end.
Definition getNl (v : val) : option nlags :=
  match v with
  | VL [VZ 0%Z; x] => do k <- getN x; Some (NLGiven k)
  | VL [VZ 1%Z] => Some NLDerived
  | VL [VZ 2%Z; x] => do k <- getN x; Some (NLOfEdges k)
  | _ => None end.
Definition ofBinf (b : binf) : val :=
  match b with BEven => VL [VZ 0] | BUniform => VL [VZ 1] | BKmeans => VL [VZ 2] | BWard => VL [VZ 3]
             | BAuto k => VL [VZ 4; ofN k] | BCustom k => VL [VZ 5; ofN k] end.
Definition ofMl (m : mlform) : val :=
  match m with MLNone => VL [VZ 0] | MLMedian => VL [VZ 1] | MLMean => VL [VZ 2]
             | MLRel k => VL [VZ 3; ofN k] | MLAbs k => VL [VZ 4; ofN k] | MLOfEdges k => VL [VZ 5; ofN k] end.
Definition ofNl (n : nlags) : val :=
  match n with NLGiven k => VL [VZ 0; ofN k] | NLDerived => VL [VZ 1] | NLOfEdges k => VL [VZ 2; ofN k] end.

Definition getSettings (v : val) : option settings :=
  match v with
  | VL [d; va; nl; ml; bf; e; m; nu; fm; sg; az; tl; bw; dm] =>
      do d <- getN d; do va <- getN va; do nl <- getNl nl; do ml <- getMl ml; do bf <- getBinf bf; do e <- getN e; do m <- getN m;
      do nu <- getB nu; do fm <- getN fm; do sg <- getN sg; do az <- getN az; do tl <- getN tl; do bw <- getN bw; do dm <- getN dm;
      Some (mkS d va nl ml bf e m nu fm sg az tl bw dm)
  | _ => None end.
Definition ofSettings (s : settings) : val :=
  VL [ofN (s_dist s); ofN (s_vals s); ofNl (s_nlags s); ofMl (s_maxlag s); ofBinf (s_binf s); ofN (s_est s); ofN (s_model s); VB (s_nugget s);
      ofN (s_fitm s); ofN (s_sigma s); ofN (s_az s); ofN (s_tol s); ofN (s_bw s); ofN (s_dmodel s)].

Definition getOp (v : val) : option op :=
  match v with
  | VL [VZ 0%Z; x] => do k <- getN x; Some (SetNLags k)
  | VL [VZ 1%Z; x] => do m <- getMl x; Some (SetMaxlag m)
  | VL [VZ 2%Z; x] => do b <- getBinf x; Some (SetBinFunc b)
  | VL [VZ 3%Z; x] => do k <- getN x; Some (SetBins k)
  | VL [VZ 4%Z; x] => do k <- getN x; Some (SetEstimator k)
  | VL [VZ 5%Z; x] => do k <- getN x; Some (SetModel k)
  | VL [VZ 6%Z; x] => do b <- getB x; Some (SetUseNugget b)
  | VL [VZ 7%Z; x] => do k <- getN x; Some (SetFitMethod k)
  | VL [VZ 8%Z; x] => do k <- getN x; Some (SetFitSigma k)
  | VL [VZ 9%Z; x] => do k <- getN x; Some (SetDist k)
  | VL [VZ 10%Z; x] => do k <- getN x; Some (VarioSM.SetValues k)
  | VL [VZ 11%Z; x] => do k <- getN x; Some (SetAzimuth k)
  | VL [VZ 12%Z; x] => do k <- getN x; Some (SetTolerance k)
  | VL [VZ 13%Z; x] => do k <- getN x; Some (SetBandwidth k)
  | VL [VZ 14%Z; x] => do k <- getN x; Some (SetDirModel k)
  | VL [VZ 20%Z] => Some ReadBins | VL [VZ 21%Z] => Some ReadNLags | VL [VZ 22%Z] => Some ReadCount
  | VL [VZ 23%Z] => Some ReadExperimental | VL [VZ 24%Z] => Some ReadParameters
  | _ => None end.

Definition obs_eqb (a b : obs) : bool := val_eqb
  ((fix enc (o : obs) : val :=
      let dirv d := match d with (a, b, c, e) => VL [ofN a; ofN b; ofN c; ofN e] end in
      let bk k := match k with (d, nl, ml, bf, dr) => VL [ofN d; ofNl nl; ofMl ml; ofBinf bf; dirv dr] end in
      let gk k := match k with (b, d, dr) => VL [bk b; ofN d; dirv dr] end in
      match o with
      | OBins k => VL [VZ 0; bk k]
      | ONLags nl k => VL [VZ 1; ofNl nl; match k with Some x => bk x | None => VNone end]
      | OCount k => VL [VZ 2; gk k]
      | OExp k d e => VL [VZ 3; gk k; VL [ofN (fst d); ofN (snd d)]; ofN e]
      | OCof k => match k with (g, v, e, (m, nu, fm, sg)) => VL [VZ 4; gk g; ofN v; ofN e; ofN m; VB nu; ofN fm; ofN sg] end
      | ONone => VNone
      end) a)
  ((fix enc (o : obs) : val :=
      let dirv d := match d with (a, b, c, e) => VL [ofN a; ofN b; ofN c; ofN e] end in
      let bk k := match k with (d, nl, ml, bf, dr) => VL [ofN d; ofNl nl; ofMl ml; ofBinf bf; dirv dr] end in
      let gk k := match k with (b, d, dr) => VL [bk b; ofN d; dirv dr] end in
      match o with
      | OBins k => VL [VZ 0; bk k]
      | ONLags nl k => VL [VZ 1; ofNl nl; match k with Some x => bk x | None => VNone end]
      | OCount k => VL [VZ 2; gk k]
      | OExp k d e => VL [VZ 3; gk k; VL [ofN (fst d); ofN (snd d)]; ofN e]
      | OCof k => match k with (g, v, e, (m, nu, fm, sg)) => VL [VZ 4; gk g; ofN v; ofN e; ofN m; VB nu; ofN fm; ofN sg] end
      | ONone => VNone
      end) b).

(* per operation: settings after it, whether it was admissible/safe, and for a read whether the value
   returned equals that of a fresh instance with the current settings (the model's validity bit) *)
Fixpoint vario_trace (st : settings * caches) (ops : list op) : list val :=
  match ops with
  | [] => []
  | o :: r =>
      let adm := admissible_op (fst st) o in
      let safe := safe_op (fst st) (snd st) o in
      let res := step st o in
      let valid := if is_read o then obs_eqb (snd res) (fresh (fst st) o) else true in
      VL [ofSettings (fst (fst res)); VB adm; VB safe; VB valid] :: vario_trace (fst res) r
  end.

(* one target result on the wire: [z sigma] or a failure code z1 (no points) z2 (singular) z3 (ill) *)
Definition getResult (v : val) : option target_result :=
  match v with
  | VL [a; b] => do z <- getQ a; do sg <- getQ b; Some (inl (z, sg))
  | VZ 1%Z => Some (inr NoPoints)
  | VZ 2%Z => Some (inr Singular)
  | VZ 3%Z => Some (inr IllMatrix)
  | _ => None
  end.

(* maxlag form on the wire: n = None, z1 = 'median', z2 = 'mean', q.. = value *)
Definition getForm (v : val) : option maxlag_form :=
  match v with
  | VNone => Some MNone
  | VZ 1%Z => Some MMedian
  | VZ 2%Z => Some MMean
  | VQ q => Some (MValue q)
  | _ => None
  end.

Definition getEntry (v : val) : option (nat * Q) :=
  match v with VL [a; b] => do j <- getN a; do d <- getQ b; Some (j, d) | _ => None end.
Definition getCsr (v : val) : option csr := getList (getList getEntry) v.
Definition ofQ (q : Q) : val := VQ q.

Definition arg (l : list val) (k : nat) : val := nth k l VNone.

Definition run_fn (f : Z) (a : list val) : option val :=
  match f with
  | 1%Z => do n <- getN (arg a 0); Some (ofList (ofPair ofN ofN) (pairs n))
  | 2%Z => do e <- getList getQ (arg a 0); do D <- getList getQ (arg a 1);
           Some (ofList (ofOpt ofN) (groups e D))
  | 3%Z => do e <- getList getQ (arg a 0); do D <- getList getQ (arg a 1);
           Some (ofList (fun i => ofList ofN (class_positions e D i)) (seq 0 (length e)))
  | 4%Z => do e <- getList getQ (arg a 0); do D <- getList getQ (arg a 1);
           Some (ofList ofN (bin_count e D))
  | 5%Z => do n <- getN (arg a 0); do i <- getN (arg a 1); do j <- getN (arg a 2);
           Some (ofN (cidx n i j))
  | 6%Z => do x <- getList getQ (arg a 0); Some (ofOpt ofQ (matheron x))
  | 7%Z => do x <- getList getQ (arg a 0); Some (ofOpt ofQ (dowd x))
  | 8%Z => do x <- getList getQ (arg a 0); Some (ofOpt ofQ (genton x))
  | 9%Z => do x <- getList getQ (arg a 0); do p <- getQ (arg a 1); Some (ofOpt ofQ (quantile x p))
  | 10%Z => do m <- getCsr (arg a 0);
            Some (ofList (fun e => VL [ofN (fst (fst e)); ofN (snd (fst e)); VQ (snd e)]) (tri_lower m))
  | 11%Z => do m <- getCsr (arg a 0); do v <- getList getQ (arg a 1); Some (ofList ofQ (sparse_diffs m v))
  | 12%Z => do x <- getList getQ (arg a 0); Some (ofList ofQ (sortQ x))
  | 13%Z => do f <- getForm (arg a 0); do D <- getList getQ (arg a 1); Some (ofOpt ofQ (resolve_maxlag f D))
  | 14%Z => do m <- getOpt getQ (arg a 0); do D <- getList getQ (arg a 1); Some (ofOpt ofQ (clip_maxlag m D))
  | 15%Z => do n <- getN (arg a 0); do M <- getQ (arg a 1); Some (ofList ofQ (even n M))
  | 16%Z => do n <- getN (arg a 0); do D <- getList getQ (arg a 1); do M <- getQ (arg a 2);
            Some (ofList (ofOpt ofQ) (uniform n D M))
  | 17%Z => do c <- getList getQ (arg a 0); Some (ofList ofQ (mid_edges c))
  | 18%Z => do k <- getN (arg a 0); do lo <- getQ (arg a 1); do hi <- getQ (arg a 2); Some (ofList ofQ (auto_edges k lo hi))
  | 19%Z => do row <- getList getQ (arg a 0); do m <- getOpt getQ (arg a 1); do N <- getN (arg a 2);
            Some (ofList ofN (find_closest_dense row m N))
  | 20%Z => do c <- getList getEntry (arg a 0); do N <- getN (arg a 1); Some (ofList ofN (closest c N))
  | 21%Z => do g <- getList getQ (arg a 0); do n <- getN (arg a 1); Some (ofList (ofList ofQ) (ok_matrix g n))
  | 22%Z => do l <- getList getQ (arg a 0); do v <- getList getQ (arg a 1); Some (ofQ (estimate l v))
  | 23%Z => do l <- getList getQ (arg a 0); do b <- getList getQ (arg a 1); Some (ofQ (variance l b))
  | 24%Z => do rs <- getList getResult (arg a 0);
            let s := transform rs in
            Some (VL [ofList (ofOpt ofQ) (zs s); ofList (ofOpt ofQ) (sigmas s);
                      ofN (n_nopoints s); ofN (n_singular s); ofN (n_ill s)])
  | 25%Z => do g <- getList getQ (arg a 0); do n <- getN (arg a 1); Some (ofList (ofList ofQ) (squareform 0%Q g n))
  | 26%Z => do r <- getList (getOpt getQ) (arg a 0); Some (ofOpt ofQ (mse r))
  | 27%Z => do r <- getList (getOpt getQ) (arg a 0); Some (ofOpt ofQ (mae r))
  | 28%Z => do i <- getN (arg a 0); do l <- getList getQ (arg a 1); Some (ofList ofQ (delete i l))
  | 29%Z => do v <- getList (getList getQ) (arg a 0); do T <- getN (arg a 1); Some (ofList (ofList ofQ) (st_diff v T))
  | 30%Z => do e <- getList getQ (arg a 0); do D <- getList getQ (arg a 1); Some (ofList (ofOpt ofN) (groups_oc e D))
  | 31%Z => do df <- getList (getList getQ) (arg a 0); do xg <- getList (getOpt getN) (arg a 1); do tg <- getList (getOpt getN) (arg a 2);
            do X <- getN (arg a 3); do T <- getN (arg a 4);
            Some (ofList (fun c => ofList ofQ c) (st_experimental (fun c => c) df xg tg X T))
  | 32%Z => do xb <- getList getQ (arg a 0); do tb <- getList getQ (arg a 1); do z <- getList (getOpt getQ) (arg a 2);
            Some (ofList (fun s => VL [VQ (fst (fst s)); VQ (snd (fst s)); VQ (snd s)]) (fit_samples xb tb z))
  | 33%Z => do sz <- getList getN (arg a 0); Some (ofList (ofPair ofN ofN) (slice_bounds sz))
  | 34%Z => do sz <- getList getN (arg a 0); do x <- getList getQ (arg a 1); Some (ofList (ofList ofQ) (split_args sz x))
  | 35%Z => do e <- getList getQ (arg a 0); do D <- getList getQ (arg a 1); do m <- getList getB (arg a 2);
            Some (ofList (ofOpt ofN) (masked_groups e D m))
  | 36%Z => do s <- getSettings (arg a 0); do ops <- getList getOp (arg a 1); Some (VL (vario_trace (s, empty_caches) ops))
  | 37%Z => do k <- getN (arg a 0); do u <- getB (arg a 1); do c <- getList getQ (arg a 2); Some (ofList ofQ (parameters k u c))
  | 38%Z => do k <- getN (arg a 0); do u <- getB (arg a 1); do c <- getList getQ (arg a 2); Some (ofList ofQ (krige_args k u c))
  | 39%Z => do b <- getList getQ (arg a 0); do e <- getList (getOpt getQ) (arg a 1); do sg <- getOpt (getList getQ) (arg a 2);
            Some (VL [ofList ofQ (fit_x b e); ofList ofQ (fit_y e); match sg with Some sv => ofList ofQ (fit_sigma sv e) | None => VNone end])
  | 40%Z => do ks <- getList (getOpt getQ) (arg a 0); do mx <- getQ (arg a 1); do my <- getQ (arg a 2); do u <- getB (arg a 3);
            Some (ofList ofQ (bounds_sum ks mx my u))
  | 41%Z => do x <- getList getQ (arg a 0); do q <- getQ (arg a 1); Some (ofOpt ofQ (percentile x q))
  | 42%Z => do m <- getList (fun v => match v with VL [a; b] => do a <- getN a; do b <- getN b; Some (a, b) | _ => None end) (arg a 0);
            do n <- getN (arg a 1); do ops <- getList getAop (arg a 2);
            Some (ofList (ofOpt (ofList ofN)) (arun (init m n) ops))
  | _ => None
  end.

Definition run (f : Z) (a : val) : val :=
  match a with
  | VL l => match run_fn f l with Some v => v | None => VErr end
  | _ => VErr
  end.

(* in-Coq golden cases: indices of the cases whose model output differs from the expectation *)
Fixpoint failing_from (k : nat) (cases : list (Z * val * val)) : list nat :=
  match cases with
  | [] => []
  | (f, a, e) :: r => if val_eqb (run f a) e then failing_from (S k) r else k :: failing_from (S k) r
  end.
Definition failing (cases : list (Z * val * val)) : list nat := failing_from 0 cases.
