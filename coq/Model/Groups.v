(* Lag-class assignment, lag classes, pair counts, experimental variogram.
   Literal mirror of Variogram._calc_groups / lag_classes / bin_count / _experimental.
   Executable model, no proofs here. *)
From SG Require Import Base.Prelude Model.Pairs.

(* (d >= lo) & (d < hi) *)
Definition in_class (lo hi d : Q) : bool := Qle_bool lo d && Qltb d hi.

(* for i, (lo,hi) in enumerate(zip([0]+edges, edges)): groups[where(lo<=d<hi)] = i
   -- later classes overwrite earlier ones; start value None = -1 *)
Fixpoint assign_loop (i : nat) (lo : Q) (edges : list Q) (d : Q) (cur : option nat) : option nat :=
  match edges with
  | [] => cur
  | hi :: rest => assign_loop (S i) hi rest d (if in_class lo hi d then Some i else cur)
  end.

Definition group_of (edges : list Q) (d : Q) : option nat := assign_loop 0 0 edges d None.

Definition groups (edges : list Q) (D : list Q) : list (option nat) := map (group_of edges) D.

Definition is_group (i : nat) (g : option nat) : bool :=
  match g with Some j => Nat.eqb i j | None => false end.

(* np.where(groups == i) : condensed positions of class i, ascending *)
Definition class_positions (edges : list Q) (D : list Q) (i : nat) : list nat :=
  positions (is_group i) (groups edges D).

(* diffs[np.where(groups == i)] *)
Definition lag_class {X} (edges : list Q) (D : list Q) (xs : list X) (i : nat) : list X :=
  map snd (filter (fun dx => is_group i (group_of edges (fst dx))) (combine D xs)).

Definition lag_classes {X} (edges : list Q) (D : list Q) (xs : list X) : list (list X) :=
  map (lag_class edges D xs) (seq 0 (length edges)).

Definition bin_count (edges : list Q) (D : list Q) : list nat :=
  map (fun i => length (class_positions edges D i)) (seq 0 (length edges)).

(* estimator applied per class; the estimators return None (NaN) on an empty class *)
Definition experimental {X Y} (est : list X -> option Y) (edges : list Q) (D : list Q) (xs : list X)
  : list (option Y) :=
  map est (lag_classes edges D xs).

(* the half-open interval of class i for the edge list: [edge[i-1], edge[i]),  edge[-1] = 0 *)
Definition lower (edges : list Q) (i : nat) : Q := nth i (0 :: edges)%Q 0%Q.
Definition upper (edges : list Q) (i : nat) : Q := nth i edges 0%Q.
Definition in_class_i (edges : list Q) (i : nat) (d : Q) : bool :=
  Nat.ltb i (length edges) && in_class (lower edges i) (upper edges i) d.

(* DirectionalVariogram._calc_groups: super()._calc_groups(); groups[~mask] = -1 *)
Definition masked_groups (edges : list Q) (D : list Q) (mask : list bool) : list (option nat) :=
  map (fun dm : Q * bool => if snd dm then group_of edges (fst dm) else None) (combine D mask).
