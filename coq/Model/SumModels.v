(* Variogram._get_argpos_sum_models / _build_sum_models: how the flat coefficient vector of a
   '+'-joined sum of models is cut into the argument lists of the components.  Executable model. *)
From SG Require Import Base.Prelude Base.NumpyPrims.
Local Open Scope Q_scope.

(* k_i = number of parameters of component i without lag and nugget (arity - 2); the last slice is one
   longer (the single shared nugget); Python slices truncate silently when the vector is shorter *)
Fixpoint split_args {A} (sizes : list nat) (args : list A) : list (list A) :=
  match sizes with
  | [] => []
  | [k] => [firstn (S k) args]
  | k :: rest => firstn k args :: split_args rest (skipn k args)
  end.

(* slice boundaries as _get_argpos_sum_models reports them: (start, stop) per component *)
Fixpoint slice_bounds_from (start : nat) (sizes : list nat) : list (nat * nat) :=
  match sizes with
  | [] => []
  | [k] => [(start, start + k + 1)%nat]
  | k :: rest => (start, start + k)%nat :: slice_bounds_from (start + k) rest
  end.
Definition slice_bounds (sizes : list nat) : list (nat * nat) := slice_bounds_from 0 sizes.

(* a component called with its slice as positional arguments: a missing last argument is the default nugget 0 *)
Definition call_component (k : nat) (f : Q -> list Q -> Q -> Q) (h : Q) (slice : list Q) : Q :=
  if Nat.ltb k (length slice) then f h (firstn k slice) (nth k slice 0) else f h slice 0.

Fixpoint sum_models (comps : list (nat * (Q -> list Q -> Q -> Q))) (h : Q) (slices : list (list Q)) : Q :=
  match comps, slices with
  | (k, f) :: cr, s :: sr => call_component k f h s + sum_models cr h sr
  | _, _ => 0
  end.

Definition sum_model (comps : list (nat * (Q -> list Q -> Q -> Q))) (h : Q) (args : list Q) : Q :=
  sum_models comps h (split_args (map fst comps) args).
