(* Exact-rational executable models of the estimators that need no irrational operation:
   Matheron, Dowd, Genton (estimators.py).  Cressie-Hawkins needs square roots: it is modelled
   over R in Spec/EstimatorsR.v and compared through `interval` goals. *)
From SG Require Import Base.Prelude Base.NumpyPrims Model.Pairs.
Local Open Scope Q_scope.

Definition nQ (l : list Q) : Q := inject_Z (Z.of_nat (length l)).

(* (1. / (2 * x.size)) * np.sum(np.power(x, 2)) *)
Definition matheron (x : list Q) : option Q :=
  match x with [] => None | _ => Some ((1 / (2 * nQ x)) * sumQ (map (fun v => v * v) x)) end.

(* 2.198 * np.nanmedian(x)**2 / 2 *)
Definition dowd (x : list Q) : option Q :=
  match median x with None => None | Some m => Some ((1099 # 500) * (m * m) / 2) end.

(* scipy.special.binom(a, 2) = a (a-1) / 2, also for half-integers *)
Definition binom2 (a : Q) : Q := a * (a - 1) / 2.

(* y = all |x_i - x_j|, i<j ; k = binom(n/2+1, 2), q = binom(n, 2) (k,q = 1,4 for n >= 500);
   0.5 * (2.219 * quantile(y, k/q))**2 *)
Definition genton (x : list Q) : option Q :=
  let n := length x in
  if (n <? 2)%nat then None else
  let y := pdist (fun a b => Qabs (a - b)) x in
  let p := if (500 <=? n)%nat then (1 # 4) else binom2 (nQ x / 2 + 1) / binom2 (nQ x) in
  match quantile y p with
  | None => None
  | Some v => Some ((1 # 2) * ((2219 # 1000) * v) * ((2219 # 1000) * v))
  end.
