(* Variogram as a state machine with provenance (C06): settings, caches stamped with the settings they
   were computed from, setters with exactly the resets the code performs, lazy getters.
   Mirrors Variogram.py: n_lags / maxlag / bin_func / bins / estimator / model / use_nugget / fit_method /
   fit_sigma / dist_function / values setters, bins / bin_count / experimental / parameters getters, and the
   directional setters of DirectionalVariogram.py.  Executable; no proofs here. *)
From SG Require Import Base.Prelude.

(* abstract identifiers: what matters is only which setting a result was computed from *)
Inductive binf := BEven | BUniform | BKmeans | BWard | BAuto (rule : nat) | BCustom (edges : nat).
Inductive mlform := MLNone | MLMedian | MLMean | MLRel (v : nat) | MLAbs (v : nat) | MLOfEdges (edges : nat).
Inductive nlags := NLGiven (n : nat) | NLDerived | NLOfEdges (edges : nat).

Record settings := mkS {
  s_dist : nat; s_vals : nat; s_nlags : nlags; s_maxlag : mlform; s_binf : binf;
  s_est : nat; s_model : nat; s_nugget : bool; s_fitm : nat; s_sigma : nat;
  (* directional part: azimuth, tolerance, bandwidth, directional model (all 0 for the isotropic class) *)
  s_az : nat; s_tol : nat; s_bw : nat; s_dmodel : nat }.

(* the projections of the settings each cached quantity depends on *)
Definition dir_key (s : settings) := (s_az s, s_tol s, s_bw s, s_dmodel s).
(* user-supplied edges are used verbatim: they depend on nothing else *)
Definition bins_key (s : settings) :=
  match s_binf s with
  | BCustom e => (0, NLOfEdges e, MLOfEdges e, BCustom e, (0, 0, 0, 0))
  | _ => (s_dist s, s_nlags s, s_maxlag s, s_binf s, dir_key s)
  end.
Definition diff_key (s : settings) := (s_dist s, s_vals s).
(* groups: the edges, the distances and the direction mask *)
Definition groups_key (s : settings) := (bins_key s, s_dist s, dir_key s).
Definition cof_key (s : settings) := (groups_key s, s_vals s, s_est s, (s_model s, s_nugget s, s_fitm s, s_sigma s)).

Definition bkey := (nat * nlags * mlform * binf * (nat * nat * nat * nat))%type.
Definition gkey := (bkey * nat * (nat * nat * nat * nat))%type.
Definition dkey := (nat * nat)%type.
Definition ckey := (gkey * nat * nat * (nat * bool * nat * nat))%type.

Record caches := mkC {
  c_bins : option bkey; c_groups : option gkey; c_count : option gkey;
  c_diff : option dkey; c_cof : option ckey; c_mask : option (nat * nat * nat * nat) }.

Inductive op :=
| SetNLags (n : nat) | SetMaxlag (m : mlform) | SetBinFunc (b : binf) | SetBins (edges : nat)
| SetEstimator (e : nat) | SetModel (m : nat) | SetUseNugget (b : bool) | SetFitMethod (f : nat) | SetFitSigma (g : nat)
| SetDist (d : nat) | SetValues (v : nat)
| SetAzimuth (a : nat) | SetTolerance (t : nat) | SetBandwidth (b : nat) | SetDirModel (m : nat)
| ReadBins | ReadNLags | ReadCount | ReadExperimental | ReadParameters.

Inductive obs :=
| OBins (k : bkey) | ONLags (nl : nlags) (k : option bkey) | OCount (k : gkey) | OExp (k : gkey) (d : dkey) (e : nat) | OCof (k : ckey) | ONone.

Definition is_custom (b : binf) : bool := match b with BCustom _ => true | _ => false end.
Definition is_auto (b : binf) : bool := match b with BAuto _ => true | _ => false end.

Definition upd_s (s : settings) nl ml bf := mkS (s_dist s) (s_vals s) nl ml bf (s_est s) (s_model s) (s_nugget s) (s_fitm s) (s_sigma s) (s_az s) (s_tol s) (s_bw s) (s_dmodel s).

(* _reset_direction_dependent: mask, groups, bin_count, cof always; bins unless custom edges are active *)
Definition reset_dir (s : settings) (c : caches) : caches :=
  mkC (if is_custom (s_binf s) then c_bins c else None) None None (c_diff c) None None.

Definition set_op (s : settings) (c : caches) (o : op) : settings * caches :=
  match o with
  | SetNLags n =>        (* _n_lags = n; _bins = None; _groups = None; _bin_count = None; cof = None *)
      (* under a rule-based binning the number of lags is (re-)derived with the edges, whatever was assigned *)
      (upd_s s (if is_auto (s_binf s) then NLDerived else NLGiven n) (s_maxlag s) (s_binf s), mkC None None None (c_diff c) None (c_mask c))
  | SetMaxlag m =>       (* cof = None; _bins, _groups, _bin_count = None *)
      (upd_s s (s_nlags s) m (s_binf s), mkC None None None (c_diff c) None (c_mask c))
  | SetBinFunc b =>      (* groups, bin_count, cof reset; bins reset (string) or set (edges); rule-based: _n_lags = None *)
      match b with
      | BCustom e => (upd_s s (NLOfEdges e) (MLOfEdges e) b, mkC None None None (c_diff c) None (c_mask c))
      | BAuto _ => (upd_s s NLDerived (s_maxlag s) b, mkC None None None (c_diff c) None (c_mask c))
      | _ => (upd_s s (s_nlags s) (s_maxlag s) b, mkC None None None (c_diff c) None (c_mask c))
      end
  | SetBins e =>         (* = set_bin_func(edges) *)
      (upd_s s (NLOfEdges e) (MLOfEdges e) (BCustom e), mkC None None None (c_diff c) None (c_mask c))
  | SetEstimator e =>    (* cof = None *)
      (mkS (s_dist s) (s_vals s) (s_nlags s) (s_maxlag s) (s_binf s) e (s_model s) (s_nugget s) (s_fitm s) (s_sigma s) (s_az s) (s_tol s) (s_bw s) (s_dmodel s),
       mkC (c_bins c) (c_groups c) (c_count c) (c_diff c) None (c_mask c))
  | SetModel m =>        (* cof = None *)
      (mkS (s_dist s) (s_vals s) (s_nlags s) (s_maxlag s) (s_binf s) (s_est s) m (s_nugget s) (s_fitm s) (s_sigma s) (s_az s) (s_tol s) (s_bw s) (s_dmodel s),
       mkC (c_bins c) (c_groups c) (c_count c) (c_diff c) None (c_mask c))
  | SetUseNugget b =>    (* NOTHING is reset (pinned by the test suite: known finding F5) *)
      (mkS (s_dist s) (s_vals s) (s_nlags s) (s_maxlag s) (s_binf s) (s_est s) (s_model s) b (s_fitm s) (s_sigma s) (s_az s) (s_tol s) (s_bw s) (s_dmodel s), c)
  | SetFitMethod f =>    (* cof = None (for 'trf' / 'lm') *)
      (mkS (s_dist s) (s_vals s) (s_nlags s) (s_maxlag s) (s_binf s) (s_est s) (s_model s) (s_nugget s) f (s_sigma s) (s_az s) (s_tol s) (s_bw s) (s_dmodel s),
       mkC (c_bins c) (c_groups c) (c_count c) (c_diff c) None (c_mask c))
  | SetFitSigma g =>     (* cof = None *)
      (mkS (s_dist s) (s_vals s) (s_nlags s) (s_maxlag s) (s_binf s) (s_est s) (s_model s) (s_nugget s) (s_fitm s) g (s_az s) (s_tol s) (s_bw s) (s_dmodel s),
       mkC (c_bins c) (c_groups c) (c_count c) (c_diff c) None (c_mask c))
  | SetDist d =>         (* cof; _diff, _groups, _bin_count; and via the maxlag setter _bins unless custom edges *)
      (mkS d (s_vals s) (s_nlags s) (s_maxlag s) (s_binf s) (s_est s) (s_model s) (s_nugget s) (s_fitm s) (s_sigma s) (s_az s) (s_tol s) (s_bw s) (s_dmodel s),
       mkC (if is_custom (s_binf s) then c_bins c else None) None None None None (c_mask c))
  | SetValues v =>       (* cof = None; _diff recomputed *)
      (mkS (s_dist s) v (s_nlags s) (s_maxlag s) (s_binf s) (s_est s) (s_model s) (s_nugget s) (s_fitm s) (s_sigma s) (s_az s) (s_tol s) (s_bw s) (s_dmodel s),
       mkC (c_bins c) (c_groups c) (c_count c) None None (c_mask c))
  | SetAzimuth a =>
      let s' := mkS (s_dist s) (s_vals s) (s_nlags s) (s_maxlag s) (s_binf s) (s_est s) (s_model s) (s_nugget s) (s_fitm s) (s_sigma s) a (s_tol s) (s_bw s) (s_dmodel s) in (s', reset_dir s' c)
  | SetTolerance t =>
      let s' := mkS (s_dist s) (s_vals s) (s_nlags s) (s_maxlag s) (s_binf s) (s_est s) (s_model s) (s_nugget s) (s_fitm s) (s_sigma s) (s_az s) t (s_bw s) (s_dmodel s) in (s', reset_dir s' c)
  | SetBandwidth b =>
      let s' := mkS (s_dist s) (s_vals s) (s_nlags s) (s_maxlag s) (s_binf s) (s_est s) (s_model s) (s_nugget s) (s_fitm s) (s_sigma s) (s_az s) (s_tol s) b (s_dmodel s) in (s', reset_dir s' c)
  | SetDirModel m =>
      let s' := mkS (s_dist s) (s_vals s) (s_nlags s) (s_maxlag s) (s_binf s) (s_est s) (s_model s) (s_nugget s) (s_fitm s) (s_sigma s) (s_az s) (s_tol s) (s_bw s) m in (s', reset_dir s' c)
  | _ => (s, c)
  end.

(* lazy fills: compute from the CURRENT settings when the cache is empty *)
Definition fill_bins (s : settings) (c : caches) : caches :=
  match c_bins c with Some _ => c | None => mkC (Some (bins_key s)) (c_groups c) (c_count c) (c_diff c) (c_cof c) (c_mask c) end.
Definition fill_diff (s : settings) (c : caches) : caches :=
  match c_diff c with Some _ => c | None => mkC (c_bins c) (c_groups c) (c_count c) (Some (diff_key s)) (c_cof c) (c_mask c) end.
(* groups are computed from the cached bins and the distances *)
Definition fill_groups (s : settings) (c : caches) : caches :=
  let c := fill_bins s c in
  match c_groups c with
  | Some _ => c
  | None => match c_bins c with
            | Some b => mkC (c_bins c) (Some (b, s_dist s, dir_key s)) (c_count c) (c_diff c) (c_cof c) (Some (dir_key s))
            | None => c end
  end.
Definition fill_count (s : settings) (c : caches) : caches :=
  let c := fill_diff s (fill_groups s c) in
  match c_count c with
  | Some _ => c
  | None => match c_groups c, c_diff c with
            | Some g, Some _ => mkC (c_bins c) (c_groups c) (Some g) (c_diff c) (c_cof c) (c_mask c)
            | _, _ => c end
  end.
(* the fit uses bins, the experimental variogram (groups, diffs, estimator) and the fit settings *)
Definition fill_cof (s : settings) (c : caches) : caches :=
  let c := fill_diff s (fill_groups s c) in
  match c_cof c with
  | Some _ => c
  | None => match c_groups c with
            | Some g => mkC (c_bins c) (c_groups c) (c_count c) (c_diff c) (Some (g, s_vals s, s_est s, (s_model s, s_nugget s, s_fitm s, s_sigma s))) (c_mask c)
            | None => c end
  end.

Definition read_op (s : settings) (c : caches) (o : op) : caches * obs :=
  match o with
  | ReadBins => let c := fill_bins s c in (c, match c_bins c with Some k => OBins k | None => ONone end)
  | ReadNLags =>          (* only a derived n_lags needs the bins *)
      match s_nlags s with
      | NLDerived => let c := fill_bins s c in (c, ONLags NLDerived (c_bins c))
      | nl => (c, ONLags nl None)
      end
  | ReadCount => let c := fill_count s c in (c, match c_count c with Some k => OCount k | None => ONone end)
  | ReadExperimental => let c := fill_diff s (fill_groups s c) in
      (c, match c_groups c, c_diff c with Some g, Some d => OExp g d (s_est s) | _, _ => ONone end)
  | ReadParameters => let c := fill_cof s c in (c, match c_cof c with Some k => OCof k | None => ONone end)
  | _ => (c, ONone)
  end.

Definition is_read (o : op) : bool :=
  match o with ReadBins | ReadNLags | ReadCount | ReadExperimental | ReadParameters => true | _ => false end.

Definition step (st : settings * caches) (o : op) : (settings * caches) * obs :=
  let (s, c) := st in
  if is_read o then let (c', ob) := read_op s c o in ((s, c'), ob)
  else (set_op s c o, ONone).

(* what a freshly constructed instance with the same settings would return *)
Definition fresh (s : settings) (o : op) : obs :=
  match o with
  | ReadBins => OBins (bins_key s)
  | ReadNLags => match s_nlags s with NLDerived => ONLags NLDerived (Some (bins_key s)) | nl => ONLags nl None end
  | ReadCount => OCount (groups_key s)
  | ReadExperimental => OExp (groups_key s) (diff_key s) (s_est s)
  | ReadParameters => OCof (cof_key s)
  | _ => ONone
  end.

Definition empty_caches : caches := mkC None None None None None None.

Fixpoint run (st : settings * caches) (ops : list op) : list obs :=
  match ops with
  | [] => []
  | o :: r => let (st', ob) := step st o in ob :: run st' r
  end.

(* the settings after a prefix of operations *)
Fixpoint settings_after (st : settings * caches) (ops : list op) : settings * caches :=
  match ops with [] => st | o :: r => settings_after (fst (step st o)) r end.

(* the property excludes: n_lags / maxlag assigned while user edges are active; and (no defined fresh
   equivalent) a non-rule binning while n_lags is still 'derived' *)
Definition admissible_op (s : settings) (o : op) : bool :=
  match o with
  | SetNLags _ | SetMaxlag _ => negb (is_custom (s_binf s))
  | SetBinFunc b => match b, s_nlags s with
                    | BAuto _, _ => true | BCustom _, _ => true
                    | _, NLDerived => false
                    | _, _ => true end
  | _ => true
  end.

(* the one setter that keeps a cache it should drop (known finding F5): harmless only when nothing is cached *)
Definition safe_op (s : settings) (c : caches) (o : op) : bool :=
  match o with
  | SetUseNugget b => Bool.eqb b (s_nugget s) || match c_cof c with None => true | Some _ => false end
  | _ => true
  end.
