(* binning.py (even, uniform, rule-based, kmeans/ward edge construction), the maxlag setter and
   the common clipping of maxlag.  Executable model over Q; clustering centres and the rule-based
   bin count are inputs (opaque library results). *)
From SG Require Import Base.Prelude Base.NumpyPrims.
Local Open Scope Q_scope.

(* Variogram.maxlag setter: None | 'median' | 'mean' | value < 1 (share of max distance) | absolute *)
Inductive maxlag_form := MNone | MMedian | MMean | MValue (v : Q).

Definition resolve_maxlag (f : maxlag_form) (D : list Q) : option Q :=
  match f with
  | MNone => None
  | MMedian => median D
  | MMean => meanQ D
  | MValue v => if Qltb v 1 then match maxQ D with Some mx => Some (v * mx) | None => None end else Some v
  end.

(* if maxlag is None or maxlag > np.nanmax(distances): maxlag = np.nanmax(distances) *)
Definition clip_maxlag (maxlag : option Q) (D : list Q) : option Q :=
  match maxQ D with
  | None => None
  | Some mx => Some (match maxlag with None => mx | Some m => if Qltb mx m then mx else m end)
  end.

(* np.linspace(0, maxlag, n + 1)[1:] *)
Definition even (n : nat) (M : Q) : list Q := linspace_tail 0 M n.

(* d = distances[distances <= maxlag]; [nanpercentile(d, i/n*100) for i in 1..n] *)
Definition within (M : Q) (D : list Q) : list Q := filter (fun d => Qle_bool d M) D.
Definition uniform (n : nat) (D : list Q) (M : Q) : list (option Q) :=
  map (fun i => percentile (within M D) (inject_Z (Z.of_nat i) / inject_Z (Z.of_nat n) * 100)) (seq 1 n).

(* kmeans / ward: edges = [(lo+up)/2 for lo,up in zip([0]+centers[:-1], centers)], centers sorted *)
Fixpoint mid_edges_from (lo : Q) (centers : list Q) : list Q :=
  match centers with
  | [] => []
  | c :: r => (lo + c) / 2 :: mid_edges_from c r
  end.
Definition mid_edges (centers : list Q) : list Q := mid_edges_from 0 centers.

(* rule-based: np.histogram_bin_edges(d, bins=rule)[1:] = linspace(min d, max d, k+1)[1:], k by the rule *)
Definition auto_edges (k : nat) (lo hi : Q) : list Q := linspace_tail lo hi k.
