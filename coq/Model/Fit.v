(* Variogram.fit / describe / parameters / fitted_model_function: how the coefficient vector is laid out
   and read back by the different views (C04); how the least-squares problem is assembled from the
   experimental variogram: NaN filtering, weights, bounds, initial guess, wrapped model (C05).
   Pure data movement over Q; executable. *)
From SG Require Import Base.Prelude Base.NumpyPrims.
Local Open Scope Q_scope.

(* ================= C04: views ================= *)
(* k = number of parameters without nugget (2, or 3 for stable / matern) *)
(* describe(): nugget = cof[-1] if use_nugget else 0 *)
Definition describe_nugget (use_nugget : bool) (cof : list Q) : Q := if use_nugget then last cof 0 else 0.
(* parameters: [range, sill, (shape), nugget] *)
Definition parameters (k : nat) (use_nugget : bool) (cof : list Q) : list Q := firstn k cof ++ [describe_nugget use_nugget cof].
(* fitted_model_function called with the describe dictionary: [range, sill, (shape)] and the nugget only if it is != 0 *)
Definition krige_args (k : nat) (use_nugget : bool) (cof : list Q) : list Q :=
  firstn k cof ++ (if Qeq_bool (describe_nugget use_nugget cof) 0 then [] else [describe_nugget use_nugget cof]).
(* a model called with positional arguments: a missing last argument is the default nugget 0 *)
Definition interp (k : nat) (args : list Q) : list Q * Q := (firstn k args, nth k args 0).

(* the coefficient vectors the fit produces *)
Definition cof_auto (k : nat) (use_nugget : bool) (params : list Q) (n : Q) : list Q := params ++ (if use_nugget then [n] else []).
Definition cof_manual (params : list Q) (n : Q) : list Q := params ++ [n].

(* ================= C05: assembly of the least-squares problem ================= *)
Definition keep {A} (mask : list bool) (l : list A) : list A := map snd (filter fst (combine mask l)).
Definition notnan {A} (y : list (option A)) : list bool := map (fun o => match o with Some _ => true | None => false end) y.
Fixpoint somes {A} (y : list (option A)) : list A :=
  match y with [] => [] | Some v :: r => v :: somes r | None :: r => somes r end.

(* _x = x[~isnan(y)], _y = y[~isnan(y)], _sigma = sigma[~isnan(y)] *)
Definition fit_x (bins : list Q) (exp : list (option Q)) : list Q := keep (notnan exp) bins.
Definition fit_y (exp : list (option Q)) : list Q := somes exp.
Definition fit_sigma (sigma : list Q) (exp : list (option Q)) : list Q := keep (notnan exp) sigma.

(* __get_fit_bounds for one model: [max x, max y, (shape bound)] (+ [0.99 max y] for the nugget) *)
Definition bounds_one (shape_bound : option Q) (mx my : Q) (nugget : bool) : list Q :=
  [mx; my] ++ (match shape_bound with Some s => [s] | None => [] end) ++ (if nugget then [(99 # 100) * my] else []).
Fixpoint bounds_sum (kinds : list (option Q)) (mx my : Q) (use_nugget : bool) : list Q :=
  match kinds with
  | [] => []
  | [k] => bounds_one k mx my use_nugget
  | k :: r => bounds_one k mx my false ++ bounds_sum r mx my use_nugget
  end.

(* the model handed to curve_fit: the nugget argument is appended as 0 when no nugget is fitted *)
Definition wrapped (m : Q -> list Q -> Q) (use_nugget : bool) (x : Q) (p : list Q) : Q :=
  if use_nugget then m x p else m x (p ++ [0]).

(* sum_i ((f(x_i) - y_i) / sigma_i)^2 ; sigma = None means all ones *)
Fixpoint objective (f : Q -> Q) (xs ys : list Q) (sig : option (list Q)) : Q :=
  match xs, ys with
  | x :: xr, y :: yr =>
      let s := match sig with Some (s :: _) => s | _ => 1 end in
      let r := (f x - y) / s in
      r * r + objective f xr yr (match sig with Some (_ :: sr) => Some sr | _ => None end)
  | _, _ => 0
  end.
