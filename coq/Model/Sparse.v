(* The truncated (sparse) distance path: Variogram.triangular_distance_matrix, .distance and
   _format_values_stack for a CSR matrix.  A CSR matrix is a list of rows, each row the list of
   stored (column, value) entries in storage order.  Executable model. *)
From SG Require Import Base.Prelude.
Local Open Scope Q_scope.

Definition csr := list (list (nat * Q)).

(* the stored entries of the strict lower triangle (col < row), row-major, explicit zeros kept
   (co-located points): csr_matrix((data[filt], (row[filt], col[filt]))) with filt = col < row *)
Definition tri_row (i : nat) (row : list (nat * Q)) : list (nat * nat * Q) :=
  map (fun e => (i, fst e, snd e)) (filter (fun e => Nat.ltb (fst e) i) row).

Fixpoint tri_lower_from (i : nat) (m : csr) : list (nat * nat * Q) :=
  match m with
  | [] => []
  | row :: r => tri_row i row ++ tri_lower_from (S i) r
  end.
Definition tri_lower (m : csr) : list (nat * nat * Q) := tri_lower_from 0 m.

(* V.distance on the sparse path = the data vector of that matrix *)
Definition sparse_distance (m : csr) : list Q := map snd (tri_lower m).

(* |Vrow.data - Vcol.data| : for the k-th stored entry (row i, col j): |v[i] - v[j]| *)
Definition sparse_diffs (m : csr) (v : list Q) : list Q :=
  map (fun e => Qabs (nth (fst (fst e)) v 0 - nth (snd (fst e)) v 0)) (tri_lower m).
