(* The truncated (sparse) distance path: Variogram.triangular_distance_matrix, .distance and
   _format_values_stack for a CSR matrix.  A CSR matrix is a list of rows, each row the list of
   stored (column, value) entries in storage order.  Executable model. *)
From SG Require Import Base.Prelude.
Local Open Scope Q_scope.

Definition csr := list (list (nat * Q)).

(* m.multiply(filt) with filt = (col < row): keeps the stored entries of the strict lower
   triangle; an elementwise product never stores a zero, so stored zero distances vanish *)
Definition tri_row (i : nat) (row : list (nat * Q)) : list (nat * nat * Q) :=
  map (fun e => (i, fst e, snd e))
      (filter (fun e => Nat.ltb (fst e) i && negb (Qeq_bool (snd e) 0)) row).

Fixpoint tri_lower_from (i : nat) (m : csr) : list (nat * nat * Q) :=
  match m with
  | [] => []
  | row :: r => tri_row i row ++ tri_lower_from (S i) r
  end.
Definition tri_lower (m : csr) : list (nat * nat * Q) := tri_lower_from 0 m.

(* V.distance on the sparse path = the data vector of that matrix *)
Definition sparse_distance (m : csr) : list Q := map snd (tri_lower m).

(* |Vrow.data - Vcol.data| : for the k-th stored entry (row i, col j): |v[i] - v[j]| *)
Definition sparse_diffs (m : csr) (v : list Q) : list Q :=
  map (fun e => Qabs (nth (fst (fst e)) v 0 - nth (snd (fst e)) v 0)) (tri_lower m).

(* what a lossless extraction of the strict lower triangle would give (specification) *)
Definition tri_row_spec (i : nat) (row : list (nat * Q)) : list (nat * nat * Q) :=
  map (fun e => (i, fst e, snd e)) (filter (fun e => Nat.ltb (fst e) i) row).
Fixpoint tri_lower_spec_from (i : nat) (m : csr) : list (nat * nat * Q) :=
  match m with
  | [] => []
  | row :: r => tri_row_spec i row ++ tri_lower_spec_from (S i) r
  end.
Definition tri_lower_spec (m : csr) : list (nat * nat * Q) := tri_lower_spec_from 0 m.
