(* util/cross_validation.py: leave-one-out bookkeeping (np.delete, residuals, nan-aware scores). *)
From SG Require Import Base.Prelude Base.NumpyPrims.
Local Open Scope Q_scope.

Fixpoint delete {A} (i : nat) (l : list A) : list A :=
  match l, i with
  | [], _ => []
  | _ :: r, O => r
  | x :: r, S i' => x :: delete i' r
  end.

(* residuals: None = the point could not be estimated (NaN) *)
Fixpoint estimable (res : list (option Q)) : list Q :=
  match res with [] => [] | Some x :: r => x :: estimable r | None :: r => estimable r end.

(* np.nanmean(dev**2) / np.nanmean(|dev|) *)
Definition mse (res : list (option Q)) : option Q := meanQ (map (fun x => x * x) (estimable res)).
Definition mae (res : list (option Q)) : option Q := meanQ (map Qabs (estimable res)).
