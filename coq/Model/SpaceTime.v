(* SpaceTimeVariogram: combined differences, open-closed lag groups, cells, experimental table,
   marginals (SpaceTimeVariogram._calc_diff/_calc_group/lag_classes/_get_experimental/get_marginal)
   and the sample table handed to the least-squares fit (fit).  Executable model. *)
From SG Require Import Base.Prelude Base.NumpyPrims Model.Pairs.
Local Open Scope Q_scope.

(* _diff[x][t] = |v[xi, ti] - v[xj, tj]| for the x-th location pair xi<xj and t-th time-step pair ti<tj *)
Definition st_diff (v : list (list Q)) (T : nat) : list (list Q) :=
  pdist (fun ra rb => map (fun p => Qabs (nth (fst p) ra 0 - nth (snd p) rb 0)) (pairs T)) v.

(* (d > lo) & (d <= hi), later classes overwrite, -1 default *)
Definition in_class_oc (lo hi d : Q) : bool := Qltb lo d && Qle_bool d hi.
Fixpoint assign_oc (i : nat) (lo : Q) (edges : list Q) (d : Q) (cur : option nat) : option nat :=
  match edges with
  | [] => cur
  | hi :: rest => assign_oc (S i) hi rest d (if in_class_oc lo hi d then Some i else cur)
  end.
Definition group_oc (edges : list Q) (d : Q) : option nat := assign_oc 0 0 edges d None.
Definition groups_oc (edges : list Q) (D : list Q) : list (option nat) := map (group_oc edges) D.

Definition is_grp (i : nat) (g : option nat) : bool := match g with Some j => Nat.eqb i j | None => false end.

(* _diff[where(xgrp == i)][:, where(tgrp == j)].flatten() *)
Definition cell (diff : list (list Q)) (xg tg : list (option nat)) (i j : nat) : list Q :=
  flat_map (fun row => take_at row (positions (is_grp j) tg)) (take_at diff (positions (is_grp i) xg)).

(* for x in range(x_lags): for t in range(t_lags): yield cell x t     -- space-major *)
Definition st_experimental {Y} (est : list Q -> Y) (diff : list (list Q)) (xg tg : list (option nat)) (X T : nat) : list Y :=
  flat_map (fun i => map (fun j => est (cell diff xg tg i j)) (seq 0 T)) (seq 0 X).

(* get_marginal('space', lag=j) / get_marginal('time', lag=i) *)
Definition marginal_space {Y} (est : list Q -> Y) diff xg tg (X j : nat) : list Y := map (fun i => est (cell diff xg tg i j)) (seq 0 X).
Definition marginal_time {Y} (est : list Q -> Y) diff xg tg (T i : nat) : list Y := map (fun j => est (cell diff xg tg i j)) (seq 0 T).

(* fit(): xx, yy = meshgrid(xbins, tbins, indexing='ij'), flattened, paired positionally with the
   space-major table z; NaN cells dropped.  Sample k carries (xbins[k / T], tbins[k mod T], z[k]). *)
Definition fit_samples {Y} (xb tb : list Q) (z : list (option Y)) : list (Q * Q * Y) :=
  let lags := flat_map (fun x => map (fun t => (x, t)) tb) xb in
  flat_map (fun lz => match snd lz with Some y => [(fst (fst lz), snd (fst lz), y)] | None => [] end) (combine lags z).
