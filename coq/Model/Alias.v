(* Ownership / aliasing model for C18: which arrays an instance holds, which the caller can reach.
   A store maps locations to array contents (abstract nat); the instance owns the locations it allocated
   itself; everything the API hands out or received is reachable by the caller.  Executable. *)
From SG Require Import Base.Prelude.

Definition loc := nat.
Definition store := list (loc * nat).

Fixpoint lookup (s : store) (l : loc) : nat :=
  match s with [] => 0%nat | (k, v) :: r => if Nat.eqb k l then v else lookup r l end.
Definition update (s : store) (l : loc) (v : nat) : store := (l, v) :: s.

Record st := mkSt {
  mem : store;
  next : loc;                 (* allocation counter: locations >= next are unused *)
  inst : list loc;            (* locations the instance computes from: [coordinates; values] *)
  reach : list loc            (* locations the caller (or a clone, or a holder of a returned array) can write *)
}.

Inductive aop :=
| Construct (c v : loc)       (* Variogram(coordinates, values): coordinates.copy(), np.array(values) *)
| ConstructAlias (c v : loc)  (* the defective variant: values kept by reference (np.asarray) *)
| SetValues (v : loc)         (* V.values = v : a copy *)
| ExtWrite (l : loc) (x : nat)(* the caller / a clone holder / the holder of a returned array writes into an array it can reach *)
| GetBins                     (* returns self._bins.copy(): a new array handed to the caller *)
| Clone                       (* deepcopy / pickle round trip: new arrays owned by the clone's holder *)
| Observe.                    (* any read of a result: a function of the instance's arrays *)

Definition alloc (s : st) (v : nat) : st * loc :=
  (mkSt (update (mem s) (next s) v) (S (next s)) (inst s) (reach s), next s).

(* one array of a deep copy: a new location holding the same contents, owned by the clone's holder *)
Definition clone_step (acc : st) (l : loc) : st :=
  mkSt (update (mem acc) (next acc) (lookup (mem acc) l)) (S (next acc)) (inst acc) (next acc :: reach acc).

Definition astep (s : st) (o : aop) : st * option (list nat) :=
  match o with
  | Construct c v =>
      let (s1, lc) := alloc s (lookup (mem s) c) in
      let (s2, lv) := alloc s1 (lookup (mem s1) v) in
      (mkSt (mem s2) (next s2) [lc; lv] (c :: v :: reach s2), None)
  | ConstructAlias c v =>
      let (s1, lc) := alloc s (lookup (mem s) c) in
      (mkSt (mem s1) (next s1) [lc; v] (c :: v :: reach s1), None)
  | SetValues v =>
      let (s1, lv) := alloc s (lookup (mem s) v) in
      (mkSt (mem s1) (next s1) (match inst s1 with lc :: _ => [lc; lv] | [] => [lv] end) (v :: reach s1), None)
  | ExtWrite l x =>
      if existsb (Nat.eqb l) (reach s) then (mkSt (update (mem s) l x) (next s) (inst s) (reach s), None) else (s, None)
  | GetBins =>
      let (s1, lb) := alloc s (list_sum (map (lookup (mem s)) (inst s))) in
      (mkSt (mem s1) (next s1) (inst s1) (lb :: reach s1), None)
  | Clone =>
      (fold_left clone_step (inst s) s, None)
  | Observe => (s, Some (map (lookup (mem s)) (inst s)))
  end.

Fixpoint arun (s : st) (ops : list aop) : list (option (list nat)) :=
  match ops with [] => [] | o :: r => let (s', ob) := astep s o in ob :: arun s' r end.

Definition init (m : store) (n : loc) : st := mkSt m n [] [].

(* operations that (re)bind the instance's arrays *)
Definition rebinds (o : aop) : bool :=
  match o with Construct _ _ | ConstructAlias _ _ | SetValues _ => true | _ => false end.
