(* Ordinary kriging: neighbour selection (DistanceMethods.find_closest), assembly of the kriging
   system (OrdinaryKriging._krige), estimate / variance, and the per-call bookkeeping of transform.
   Executable over Q.  No proofs here. *)
From SG Require Import Base.Prelude Base.NumpyPrims Model.Pairs.
Local Open Scope Q_scope.

(* ---------- neighbour search ---------- *)
(* stable insertion sort of (index, distance) by distance: np.argsort(kind="stable") *)
Fixpoint insert_by (x : nat * Q) (l : list (nat * Q)) : list (nat * Q) :=
  match l with
  | [] => [x]
  | y :: r => if Qle_bool (snd x) (snd y) then x :: l else y :: insert_by x r
  end.
(* inserting from the right, before the first element that is not smaller, keeps equal keys in
   their original order (stable) *)
Fixpoint sort_by (l : list (nat * Q)) : list (nat * Q) :=
  match l with [] => [] | x :: r => insert_by x (sort_by r) end.

(* candidates of one query point: dense row = all columns with d <= maxd;
   sparse row = the stored columns (already <= maxd) *)
Definition dense_candidates (row : list Q) (maxd : option Q) : list (nat * Q) :=
  filter (fun e => match maxd with Some m => Qle_bool (snd e) m | None => true end)
         (combine (seq 0 (length row)) row).

(* if ridx.size > N: ridx[argsort(dists[ridx], stable)][:N] else ridx *)
Definition closest (cands : list (nat * Q)) (N : nat) : list nat :=
  if Nat.ltb N (length cands) then map fst (firstn N (sort_by cands)) else map fst cands.

Definition find_closest_dense (row : list Q) (maxd : option Q) (N : nat) : list nat :=
  closest (dense_candidates row maxd) N.

(* ---------- the kriging system ---------- *)
(* a = [[squareform(gamma(d_ij)), 1], [1 ... 1, 0]] ; b = [gamma(d_i0) ..., 1] *)
Definition ok_matrix (gcond : list Q) (n : nat) : list (list Q) :=
  map (fun i => map (fun j => sq_entry 0 gcond n i j) (seq 0 n) ++ [1]) (seq 0 n)
  ++ [repeat 1 n ++ [0]].
Definition ok_rhs (g0 : list Q) : list Q := g0 ++ [1].

Definition dot (a b : list Q) : Q := sumQ (map (fun p => fst p * snd p) (combine a b)).
Definition matvec (A : list (list Q)) (x : list Q) : list Q := map (fun r => dot r x) A.

(* lambda = solution vector (weights ++ [mu]) *)
Definition weights (lam : list Q) : list Q := removelast lam.
Definition mu (lam : list Q) : Q := last lam 0.
(* Z = lambda[:-1].dot(values) ; sigma = sum(b[:-1] * lambda[:-1]) + lambda[-1] *)
Definition estimate (lam vals : list Q) : Q := dot (weights lam) vals.
Definition variance (lam b : list Q) : Q := dot (removelast b) (weights lam) + mu lam.

(* ---------- bookkeeping of transform ---------- *)
(* result of one target: Some (Z, sigma) or None (LessPoints / Singular / Ill-conditioned) *)
Inductive failure := NoPoints | Singular | IllMatrix.
Definition target_result := (sum (Q * Q) failure).

Record tstate := { zs : list (option Q); sigmas : list (option Q); n_nopoints : nat; n_singular : nat; n_ill : nat }.
Definition tinit : tstate := {| zs := []; sigmas := []; n_nopoints := 0; n_singular := 0; n_ill := 0 |}.

(* _estimator: on success store sigma at the cursor; in any case advance the cursor *)
Definition tstep (s : tstate) (r : target_result) : tstate :=
  match r with
  | inl (z, sg) => {| zs := zs s ++ [Some z]; sigmas := sigmas s ++ [Some sg];
                      n_nopoints := n_nopoints s; n_singular := n_singular s; n_ill := n_ill s |}
  | inr NoPoints => {| zs := zs s ++ [None]; sigmas := sigmas s ++ [None];
                      n_nopoints := S (n_nopoints s); n_singular := n_singular s; n_ill := n_ill s |}
  | inr Singular => {| zs := zs s ++ [None]; sigmas := sigmas s ++ [None];
                      n_nopoints := n_nopoints s; n_singular := S (n_singular s); n_ill := n_ill s |}
  | inr IllMatrix => {| zs := zs s ++ [None]; sigmas := sigmas s ++ [None];
                      n_nopoints := n_nopoints s; n_singular := n_singular s; n_ill := S (n_ill s) |}
  end.

(* transform: counters and sigma are reset at the start of every call *)
Definition transform (rs : list target_result) : tstate := fold_left tstep rs tinit.

(* a target with fewer than min_points neighbours is a NoPoints failure *)
Definition enough (neigh : list nat) (minp : nat) : bool := Nat.leb minp (length neigh).
