(* The single extraction file.  ExtrOcamlBasic only; Z, positive, nat, Q stay inductive types. *)
From SG Require Import Base.Prelude Base.Val Model.Dispatch.
Require Import ExtrOcamlBasic.
Extraction Language OCaml.
Extraction "../build/ocaml/model.ml" run.
