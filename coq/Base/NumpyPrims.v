(* Exact-rational models of the NumPy leaf operations the models need:
   sort, sum, mean, median, linear-interpolated percentile/quantile, linspace, max.
   Executable definitions only. *)
From SG Require Import Base.Prelude.
Local Open Scope Q_scope.

Fixpoint insert (x : Q) (l : list Q) : list Q :=
  match l with
  | [] => [x]
  | y :: r => if Qle_bool x y then x :: l else y :: insert x r
  end.
Fixpoint sortQ (l : list Q) : list Q :=
  match l with [] => [] | x :: r => insert x (sortQ r) end.

Definition sumQ (l : list Q) : Q := fold_right Qplus 0 l.
Definition meanQ (l : list Q) : option Q :=
  match l with [] => None | _ => Some (sumQ l / inject_Z (Z.of_nat (length l))) end.

Fixpoint maxQ_from (m : Q) (l : list Q) : Q :=
  match l with [] => m | x :: r => maxQ_from (if Qle_bool m x then x else m) r end.
Definition maxQ (l : list Q) : option Q :=
  match l with [] => None | x :: r => Some (maxQ_from x r) end.

(* numpy.quantile(l, p) with the default 'linear' method: virtual index (n-1)*p,
   interpolate between the two neighbouring order statistics.  0 <= p <= 1, l non-empty. *)
Definition interp (s : list Q) (pos : Q) : Q :=
  let lo := Qfloor pos in
  let g := pos - inject_Z lo in
  let i := Z.to_nat lo in
  let a := nth i s 0 in
  let b := nth (S i) s a in          (* at the last index the upper neighbour does not exist: g = 0 *)
  a + g * (b - a).

Definition quantile (l : list Q) (p : Q) : option Q :=
  match l with
  | [] => None
  | _ => Some (interp (sortQ l) (inject_Z (Z.of_nat (length l - 1)) * p))
  end.

Definition percentile (l : list Q) (q : Q) : option Q := quantile l (q / 100).
Definition median (l : list Q) : option Q := quantile l (1 # 2).

(* np.linspace(a, b, k+1)[1:]  =  a + (b-a)*i/k  for i = 1..k *)
Definition linspace_tail (a b : Q) (k : nat) : list Q :=
  map (fun i => a + (b - a) * inject_Z (Z.of_nat i) / inject_Z (Z.of_nat k)) (seq 1 k).

Definition absQ (x : Q) : Q := Qabs x.
