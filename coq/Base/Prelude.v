(* Common imports and small tactics for the Q / list developments.  No axioms. *)
From Coq Require Export List Arith ZArith QArith Qabs Qround Bool Lia Lqa Permutation Sorted.
Export ListNotations.
#[global] Close Scope Q_scope.

Ltac inv H := inversion H; subst; clear H.

(* boolean order on Q, the only comparison the executable models use *)
Definition Qltb (a b : Q) : bool := negb (Qle_bool b a).

Local Open Scope Q_scope.

Lemma Qltb_lt a b : Qltb a b = true <-> (a < b)%Q.
Proof.
  unfold Qltb. rewrite negb_true_iff. split; intro H.
  - apply Qnot_le_lt. intro Hc. apply Qle_bool_iff in Hc. congruence.
  - destruct (Qle_bool b a) eqn:E; [|reflexivity].
    apply Qle_bool_iff in E. exfalso. apply (Qlt_not_le _ _ H E).
Qed.

Lemma Qltb_ge a b : Qltb a b = false <-> (b <= a)%Q.
Proof.
  unfold Qltb. rewrite negb_false_iff. apply Qle_bool_iff.
Qed.

Lemma Qle_bool_false a b : Qle_bool a b = false <-> (b < a)%Q.
Proof.
  split; intro H.
  - apply Qnot_le_lt. intro Hc. apply Qle_bool_iff in Hc. congruence.
  - destruct (Qle_bool a b) eqn:E; [|reflexivity].
    apply Qle_bool_iff in E. exfalso. apply (Qlt_not_le _ _ H E).
Qed.

(* turn boolean Q comparisons in hypotheses and goal into propositions *)
Ltac qbool :=
  repeat match goal with
  | H : Qle_bool _ _ = true |- _ => apply Qle_bool_iff in H
  | H : Qle_bool _ _ = false |- _ => apply Qle_bool_false in H
  | H : Qltb _ _ = true |- _ => apply Qltb_lt in H
  | H : Qltb _ _ = false |- _ => apply Qltb_ge in H
  | |- Qle_bool _ _ = true => apply Qle_bool_iff
  | |- Qle_bool _ _ = false => apply Qle_bool_false
  | |- Qltb _ _ = true => apply Qltb_lt
  | |- Qltb _ _ = false => apply Qltb_ge
  end.
