(* Universal value type used on the wire between the Python harness and the executable
   models (extracted OCaml driver and in-Coq golden cases).  Pure glue, no proofs. *)
From SG Require Import Base.Prelude.

Inductive val :=
| VZ (z : Z)
| VQ (q : Q)
| VB (b : bool)
| VNone
| VL (l : list val).

Definition getZ (v : val) : option Z := match v with VZ z => Some z | _ => None end.
Definition getN (v : val) : option nat :=
  match v with VZ z => if (z <? 0)%Z then None else Some (Z.to_nat z) | _ => None end.
Definition getQ (v : val) : option Q :=
  match v with VQ q => Some q | VZ z => Some (inject_Z z) | _ => None end.
Definition getB (v : val) : option bool := match v with VB b => Some b | _ => None end.
Definition getL (v : val) : option (list val) := match v with VL l => Some l | _ => None end.

Fixpoint sequence {A} (l : list (option A)) : option (list A) :=
  match l with
  | [] => Some []
  | Some x :: r => match sequence r with Some r' => Some (x :: r') | None => None end
  | None :: _ => None
  end.

Definition getList {A} (f : val -> option A) (v : val) : option (list A) :=
  match v with VL l => sequence (map f l) | _ => None end.

Definition getOpt {A} (f : val -> option A) (v : val) : option (option A) :=
  match v with VNone => Some None | _ => match f v with Some x => Some (Some x) | None => None end end.

Definition ofN (n : nat) : val := VZ (Z.of_nat n).
Definition ofList {A} (f : A -> val) (l : list A) : val := VL (map f l).
Definition ofOpt {A} (f : A -> val) (o : option A) : val :=
  match o with Some x => f x | None => VNone end.
Definition ofPair {A B} (f : A -> val) (g : B -> val) (p : A * B) : val := VL [f (fst p); g (snd p)].

(* error value: a decoder failed (malformed case); the harness treats it as a harness bug *)
Definition VErr : val := VL [VZ (-7777777); VNone; VZ (-7777777); VB false].

Definition bind {A B} (o : option A) (f : A -> option B) : option B :=
  match o with Some x => f x | None => None end.
Notation "'do' x <- o ; k" := (bind o (fun x => k)) (at level 200, x name, o at level 100, k at level 200).

(* structural equality, rationals compared as rationals; used by the in-Coq golden cases *)
Fixpoint val_eqb (a b : val) : bool :=
  match a, b with
  | VZ x, VZ y => Z.eqb x y
  | VQ x, VQ y => Qeq_bool x y
  | VZ x, VQ y => Qeq_bool (inject_Z x) y
  | VQ x, VZ y => Qeq_bool x (inject_Z y)
  | VB x, VB y => Bool.eqb x y
  | VNone, VNone => true
  | VL x, VL y =>
      (fix go (x y : list val) : bool :=
         match x, y with
         | [], [] => true
         | a :: x', b :: y' => val_eqb a b && go x' y'
         | _, _ => false
         end) x y
  | _, _ => false
  end.

(* dyadic float literal m * 2^e, the form in which the harness writes floats into Coq files *)
Definition dy (m e : Z) : Q :=
  match e with
  | Z0 => inject_Z m
  | Zpos p => inject_Z (m * Z.pow_pos 2 p)
  | Zneg p => Qmake m (Pos.pow 2 p)
  end.
