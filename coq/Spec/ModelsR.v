(* Closed forms of the theoretical variogram models over R (the documented formulas), written by hand.
   Property theorems are stated on these; Proofs/ModelsBridge.v proves that the definitions generated
   from models.py (Gen/Models.v) are equal to them. *)
From Coq Require Import Reals.
Local Open Scope R_scope.

Definition sph_core (x : R) : R := 3 / 2 * x - 1 / 2 * x ^ 3.
Definition spherical_cf (h r c0 b : R) : R := if Rle_dec h r then b + c0 * sph_core (h / r) else b + c0.

Definition exponential_cf (h r c0 b : R) : R := b + c0 * (1 - exp (- (3 * h / r))).
Definition gaussian_cf (h r c0 b : R) : R := b + c0 * (1 - exp (- (4 * h ^ 2 / r ^ 2))).

Definition cub_core (x : R) : R := 7 * x ^ 2 - 35 / 4 * x ^ 3 + 7 / 2 * x ^ 5 - 3 / 4 * x ^ 7.
Definition cubic_cf (h r c0 b : R) : R := if Rlt_dec h r then b + c0 * cub_core (h / r) else b + c0.

(* a = r / 3^(1/s), so (h/a)^s = 3 (h/r)^s *)
Definition stable_cf (h r c0 s b : R) : R :=
  if Req_EM_T h 0 then b else b + c0 * (1 - exp (- (3 * Rpower (h / r) s))).

(* Matern: rho_s(x) = 2/Gamma(s) (x/2)^s K_s(x) with x = 4 h sqrt(s) / r; Gamma and K are parameters *)
Definition matern_rho (Gamma : R -> R) (Kv : R -> R -> R) (s x : R) : R := 2 / Gamma s * Rpower (x / 2) s * Kv s x.
Definition matern_cf (Gamma : R -> R) (Kv : R -> R -> R) (h r c0 s b : R) : R :=
  if Req_EM_T h 0 then b else b + c0 * (1 - matern_rho Gamma Kv s (4 * h * sqrt s / r)).
