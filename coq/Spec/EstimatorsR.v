(* The Cressie-Hawkins estimator over R (it needs square roots; estimators.cressie):
     n = x.size ; ((1/n) * sum(x ** 0.5)) ** 4 / (2 * (0.457 + 0.494/n + 0.045/n**2)),
   with its two C10 laws: it depends on the multiset of the class only, and scales with k^2. *)
From Coq Require Import Reals Lra List Permutation.
Import ListNotations.
Local Open Scope R_scope.

Definition sumR (l : list R) : R := fold_right Rplus 0 l.

Definition cressie_den (n : R) : R := 2 * (457 / 1000 + (494 / 1000) / n + (45 / 1000) / (n * n)).

Definition cressieR (x : list R) : R :=
  let n := INR (length x) in
  ((1 / n) * sumR (map sqrt x)) ^ 4 / cressie_den n.

Lemma sumR_cons x l : sumR (x :: l) = x + sumR l.
Proof. reflexivity. Qed.

Lemma sumR_perm l l' : Permutation l l' -> sumR l = sumR l'.
Proof.
  induction 1 as [|x l l' Hp IH|x y l|l l' l'' H1 IH1 H2 IH2]; rewrite ?sumR_cons.
  - reflexivity.
  - rewrite IH. reflexivity.
  - lra.
  - congruence.
Qed.

Theorem cressie_perm l l' : Permutation l l' -> cressieR l = cressieR l'.
Proof.
  intro Hp. unfold cressieR. cbv zeta.
  rewrite (Permutation_length Hp). rewrite (sumR_perm _ _ (Permutation_map sqrt Hp)). reflexivity.
Qed.

Lemma sumR_scale c l : sumR (map (fun v => c * v) l) = c * sumR l.
Proof. induction l as [|x r IH]; cbn [map]; rewrite ?sumR_cons; [cbn; lra|]. rewrite IH. lra. Qed.

(* every |difference| of the class is multiplied by |k|: the estimate is multiplied by k^2 *)
Theorem cressie_scale k l : cressieR (map (Rmult (Rabs k)) l) = k * k * cressieR l.
Proof.
  unfold cressieR. cbv zeta. rewrite map_length, map_map.
  assert (E : map (fun v => sqrt (Rabs k * v)) l = map (fun v => sqrt (Rabs k) * v) (map sqrt l)).
  { rewrite map_map. apply map_ext. intro v. apply sqrt_mult_alt. apply Rabs_pos. }
  rewrite E, sumR_scale.
  set (n := INR (length l)). set (S := sumR (map sqrt l)). set (c := sqrt (Rabs k)).
  assert (Hc : c ^ 4 = k * k).
  { unfold c. replace (sqrt (Rabs k) ^ 4) with ((sqrt (Rabs k) * sqrt (Rabs k)) * (sqrt (Rabs k) * sqrt (Rabs k))) by ring.
    rewrite sqrt_sqrt by apply Rabs_pos. rewrite <- Rabs_mult. apply Rabs_pos_eq. nra. }
  replace ((1 / n * (c * S)) ^ 4) with (c ^ 4 * (1 / n * S) ^ 4) by ring.
  rewrite Hc. unfold Rdiv. ring.
Qed.

(* non-vacuity: the estimate of a concrete class is positive, and reordering / scaling apply to it *)
Example cressie_example : cressieR [1; 4; 9] = 16 / cressie_den 3 /\ cressieR [9; 1; 4] = cressieR [1; 4; 9].
Proof.
  split.
  - assert (s1 : sqrt 1 = 1) by apply sqrt_1.
    assert (s4 : sqrt 4 = 2) by (replace 4 with (2 * 2) by lra; apply sqrt_square; lra).
    assert (s9 : sqrt 9 = 3) by (replace 9 with (3 * 3) by lra; apply sqrt_square; lra).
    unfold cressieR. cbv zeta. cbn [length map]. unfold sumR. cbn [fold_right]. rewrite s1, s4, s9.
    replace (INR 3) with 3 by (simpl; lra).
    replace (1 / 3 * (1 + (2 + (3 + 0)))) with 2 by lra.
    f_equal. simpl. lra.
  - apply cressie_perm. apply (Permutation_cons_append [1; 4] 9).
Qed.
